#!/usr/bin/env python3
"""tools/seedverify.py <seed-dir> [--keep-going]

Independent confirmation of a seeded change before it is kept under
/verif/seeded/: in a scratch worktree of /repo's HEAD
  1. the patch applies and the library builds,
  2. the repository's own suite (build tag off) still passes with it
     (tools/baseline.py: every stable-pass test of BASELINE.json passes in
     one of two runs),
  3. the demonstration fails with the patch (3 of 3 runs, or at least 4 of
     6 for a schedule-dependent one),
  4. the demonstration passes without it (3 runs).
Prints a JSON verdict; exit 0 when all four hold."""
import json, os, shutil, subprocess, sys, tempfile

d = os.path.abspath(sys.argv[1])
meta = json.load(open(os.path.join(d, "meta.json")))
env = dict(os.environ, GOFLAGS="-mod=mod -trimpath", GOPROXY="off", GOSUMDB="off", GOTOOLCHAIN="local")
env.pop("VERIF_REPO", None)
wt = tempfile.mkdtemp(prefix="seedverify-", dir="/tmp")
os.rmdir(wt)
verdict = {"seed": os.path.basename(d), "property": meta.get("property")}


def sh(cmd, cwd=None, timeout=1800):
    p = subprocess.run(cmd, shell=True, cwd=cwd, env=env, stdout=subprocess.PIPE, stderr=subprocess.STDOUT, text=True, timeout=timeout)
    return p.returncode, p.stdout


try:
    rc, out = sh("git -C /repo worktree add -q --detach %s HEAD" % wt)
    if rc != 0:
        raise SystemExit("cannot create worktree: " + out)
    rc, out = sh("git apply --check %s/patch.diff && git apply %s/patch.diff" % (d, d), cwd=wt)
    verdict["applies"] = rc == 0
    if rc != 0:
        verdict["error"] = out[-500:]
        raise StopIteration
    rc, out = sh("go build ./...", cwd=wt)
    verdict["builds"] = rc == 0
    if rc != 0:
        verdict["error"] = out[-800:]
        raise StopIteration
    changed = sh("git diff --name-only", cwd=wt)[1].split()
    verdict["changed"] = changed
    verdict["touches_tests"] = any(f.endswith("_test.go") for f in changed)
    # suite with the patch
    rc, out = sh("python3 /verif/tools/baseline.py %s --runs 4" % wt, timeout=3600)
    verdict["suite_passes_with_patch"] = rc == 0
    verdict["suite_summary"] = out.strip().splitlines()[-6:]
    # demo
    demo = meta.get("demo", {})
    place = os.path.join(wt, demo.get("place_at", ".").lstrip("/"))
    os.makedirs(place, exist_ok=True)
    copied = []
    for f in demo.get("files", []):
        src = os.path.join(d, os.path.basename(f))
        dst = os.path.join(place, os.path.basename(f))
        shutil.copyfile(src, dst)
        copied.append(dst)
    run = demo.get("run", "")
    # three runs; a schedule-dependent demonstration that missed once or
    # twice (the machine is busy with other checks) gets three more, and
    # counts when it fails in at least four of the six
    fails, runs = 0, 0
    for i in range(6):
        if i == 3 and fails == 3:
            break
        rc, out = sh(run, cwd=wt, timeout=1200)
        runs += 1
        fails += rc != 0
        if rc != 0 and "demo_with_patch_tail" not in verdict:
            verdict["demo_with_patch_tail"] = out.strip().splitlines()[-8:]
    verdict["demo_fails_with_patch"] = "%d/%d" % (fails, runs)
    demo_ok = fails == runs or fails >= 4
    sh("git apply -R %s/patch.diff" % d, cwd=wt)
    passes = 0
    for i in range(3):
        rc, out = sh(run, cwd=wt, timeout=1200)
        passes += rc == 0
        if rc != 0:
            verdict["demo_without_patch_tail"] = out.strip().splitlines()[-8:]
    verdict["demo_passes_without_patch"] = "%d/3" % passes
    verdict["ok"] = bool(verdict["builds"] and verdict["suite_passes_with_patch"] and demo_ok and passes == 3 and not verdict["touches_tests"])
except StopIteration:
    verdict["ok"] = False
finally:
    subprocess.run("git -C /repo worktree remove --force %s" % wt, shell=True, stdout=subprocess.DEVNULL, stderr=subprocess.DEVNULL)
    shutil.rmtree(wt, ignore_errors=True)
print(json.dumps(verdict, indent=1))
sys.exit(0 if verdict.get("ok") else 1)
