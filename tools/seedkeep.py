#!/usr/bin/env python3
"""tools/seedkeep.py <seed-id> <first-result> <final-result> [note]

Keep a seeded change under /verif/seeded/<id>/: copies patch.diff, the
demonstration files and meta.json from /tmp/seed/out/<id>/, and records in
meta.json my own confirmation (tools/seedverify.py verdict from
/tmp/seed/verdicts/<id>.json) and what the checks did with it:
  first-result : CAUGHT | MISSED   - the check as it was when the seed arrived
  final-result : CAUGHT | MISSED   - after strengthening (same as first if nothing changed)
"""
import json, os, shutil, sys

sid, first, final = sys.argv[1], sys.argv[2], sys.argv[3]
note = sys.argv[4] if len(sys.argv) > 4 else ""
src = "/tmp/seed/out/" + sid
dst = "/verif/seeded/" + sid
meta = json.load(open(os.path.join(src, "meta.json")))
verdict = json.load(open("/tmp/seed/verdicts/%s.json" % sid))
if not verdict.get("ok"):
    print("seedkeep: %s is not confirmed (verdict ok=false); not kept" % sid)
    sys.exit(1)
os.makedirs(dst, exist_ok=True)
shutil.copyfile(os.path.join(src, "patch.diff"), os.path.join(dst, "patch.diff"))
for f in meta.get("demo", {}).get("files", []):
    shutil.copyfile(os.path.join(src, os.path.basename(f)), os.path.join(dst, os.path.basename(f)))
meta["breaks_property"] = meta.get("property")
meta["confirmed"] = {
    "how": "tools/seedverify.py in a scratch worktree of /repo HEAD: patch applies and builds; repository suite (tag off) compared with the stable-pass list of BASELINE.json over two runs; demonstration run 3x with and 3x without the patch",
    "suite_passes_with_patch": verdict.get("suite_passes_with_patch"),
    "demo_fails_with_patch": verdict.get("demo_fails_with_patch"),
    "demo_passes_without_patch": verdict.get("demo_passes_without_patch"),
    "changed_files": verdict.get("changed"),
}
meta["checks"] = {
    "ran": "tools/seedtest.sh %s quick (./check %s --tier quick against a scratch worktree carrying the patch)" % (src, meta.get("property")),
    "when_it_arrived": first,
    "now": final,
    "note": note,
}
json.dump(meta, open(os.path.join(dst, "meta.json"), "w"), indent=1)
open(os.path.join(dst, "meta.json"), "a").write("\n")
print("kept", dst)
