#!/usr/bin/env python3
"""Run the repository's pinned test suite (build tag `verif` OFF) and compare
with the stable-pass list of /root/.vp/BASELINE.json.

  tools/baseline.py [repo-dir] [--pkgs ./dt/... ./pubsub/...] [--runs N]

exit 0 when every stable-pass test of the selected packages passed in at
least one of the runs (the suite has timing tests that flake under load)."""
import json, os, subprocess, sys

args = sys.argv[1:]
repo = "/repo"
pkgs = ["./..."]
runs = 1
i = 0
while i < len(args):
    if args[i] == "--pkgs":
        pkgs = []
        i += 1
        while i < len(args) and not args[i].startswith("--"):
            pkgs.append(args[i]); i += 1
        continue
    if args[i] == "--runs":
        runs = int(args[i + 1]); i += 2; continue
    repo = args[i]; i += 1

env = dict(os.environ, GOFLAGS="-mod=mod -trimpath", GOPROXY="off", GOSUMDB="off", GOTOOLCHAIN="local")
MODULE = "github.com/tychoish/fun"
base = json.load(open("/root/.vp/BASELINE.json"))
stable = set(base["stable_pass"])
passed, failed, seen_pkgs = set(), set(), set()
for r in range(runs):
    p = subprocess.run(["go", "test", "-json", "-vet=off", "-count=1", "-timeout", "25m"] + pkgs,
                       cwd=repo, env=env, stdout=subprocess.PIPE, stderr=subprocess.STDOUT, text=True)
    for line in p.stdout.splitlines():
        try:
            ev = json.loads(line)
        except Exception:
            continue
        if ev.get("Package"):
            seen_pkgs.add(ev["Package"])
        if ev.get("Test") and ev.get("Action") in ("pass", "fail"):
            name = ev["Package"] + "::" + ev["Test"]
            (passed if ev["Action"] == "pass" else failed).add(name)
        if ev.get("Action") == "fail" and not ev.get("Test"):
            print("package failed:", ev.get("Package"))
        if ev.get("Action") == "output" and ("build failed" in ev.get("Output", "") or "[setup failed]" in ev.get("Output", "")):
            print(ev["Output"].rstrip())
    missing = sorted(t for t in stable if t.split("::")[0] in seen_pkgs and t not in passed)
    if not missing:
        break
    # the next run repeats only the packages that still miss a pass
    again = sorted({t.split("::")[0] for t in missing})
    pkgs = ["./" + a[len(MODULE):].lstrip("/") if a != MODULE else "." for a in again]
sel = [t for t in stable if t.split("::")[0] in seen_pkgs]
missing = sorted(t for t in sel if t not in passed)
print("baseline: %d stable tests in %d packages, %d passed, %d not passed; %d other failures (flaky list or new)" % (
    len(sel), len(seen_pkgs), len(sel) - len(missing), len(missing), len(failed - set(sel))))
for t in missing[:40]:
    print("  NOT PASSED:", t)
sys.exit(1 if missing else 0)
