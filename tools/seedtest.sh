#!/bin/bash
# tools/seedtest.sh <dir-with-patch.diff-and-meta.json> [tier] [property ...]
# Apply a seeded change to /repo, run the check(s) of the property it breaks
# (or of the listed properties), undo the change.  Prints one line per check:
#   CAUGHT <seed> <prop> <tier> <key>   |  MISSED ...  |  RC<n> ... (inconclusive)
set -u
D=$(cd "$1" && pwd); TIER=${2:-quick}; shift; shift 2>/dev/null
SEED=$(basename "$D")
PROPS="$*"
[ -z "$PROPS" ] && PROPS=$(python3 -c "import json,sys; print(json.load(open('$D/meta.json'))['property'])")
cd /repo || exit 2
if [ -n "$(git status --porcelain)" ]; then echo "repo dirty"; exit 2; fi
if ! git apply --check "$D/patch.diff" 2>/dev/null; then echo "NOAPPLY $SEED"; exit 0; fi
git apply "$D/patch.diff"
export GOFLAGS=-mod=mod GOPROXY=off GOSUMDB=off GOTOOLCHAIN=local
if ! go build ./... >/dev/null 2>&1; then echo "NOBUILD $SEED"; git checkout -- .; git clean -fdq; exit 0; fi
for P in $PROPS; do
  out=$(cd /verif && ./check $P --tier $TIER 2>&1); rc=$?
  if [ $rc -eq 1 ]; then echo "CAUGHT $SEED $P $TIER :: $(echo "$out" | grep -m1 -A1 '^  key=' | tr '\n' ' ' | cut -c1-220)";
  elif [ $rc -eq 0 ]; then echo "MISSED $SEED $P $TIER";
  else echo "RC$rc $SEED $P $TIER :: $(echo "$out" | tail -4 | tr '\n' ' ' | cut -c1-300)"; fi
done
git checkout -- . ; git clean -fdq
