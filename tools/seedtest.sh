#!/bin/bash
# tools/seedtest.sh <dir-with-patch.diff-and-meta.json> [tier] [property ...]
# Apply a seeded change to a scratch worktree of /repo's HEAD, run the
# check(s) of the property it breaks (or of the listed properties) against
# that tree (VERIF_REPO, see ./check), remove the worktree.  /repo itself is
# not touched, so several seeds can be tested at once.  One line per check:
#   CAUGHT <seed> <prop> <tier> <key>   |  MISSED ...  |  RC<n> ... (inconclusive)
# With SEED_IN_REPO=1 the change is applied to /repo itself instead
# (git apply / run / git checkout), which is how the registered commands see it.
set -u
D=$(cd "$1" && pwd); TIER=${2:-quick}; shift; shift 2>/dev/null
SEED=$(basename "$D")
PROPS="$*"
[ -z "$PROPS" ] && PROPS=$(python3 -c "import json,sys; print(json.load(open('$D/meta.json'))['property'])")
export GOFLAGS=-mod=mod GOPROXY=off GOSUMDB=off GOTOOLCHAIN=local
if [ "${SEED_IN_REPO:-0}" = 1 ]; then
  WT=/repo
  cd /repo || exit 2
  if [ -n "$(git status --porcelain)" ]; then echo "repo dirty"; exit 2; fi
else
  WT=/tmp/seedrun/$SEED.$$
  mkdir -p /tmp/seedrun
  git -C /repo worktree add -q --detach "$WT" HEAD || exit 2
  export VERIF_REPO=$WT
fi
cleanup() {
  if [ "$WT" = /repo ]; then git -C /repo checkout -- . ; git -C /repo clean -fdq
  else git -C /repo worktree remove --force "$WT"; rm -rf "/verif/.alt/$(printf %s "$WT" | sha1sum | cut -c1-12)"; fi
}
cd "$WT"
if ! git apply --check "$D/patch.diff" 2>/dev/null; then echo "NOAPPLY $SEED"; cleanup; exit 0; fi
git apply "$D/patch.diff"
if ! go build ./... >/dev/null 2>&1; then echo "NOBUILD $SEED"; cleanup; exit 0; fi
for P in $PROPS; do
  out=$(cd /verif && ./check $P --tier $TIER 2>&1); rc=$?
  if [ $rc -eq 1 ]; then echo "CAUGHT $SEED $P $TIER :: $(echo "$out" | grep -m1 -A1 '^  key=' | tr '\n' ' ' | cut -c1-220)";
  elif [ $rc -eq 0 ]; then echo "MISSED $SEED $P $TIER :: $(echo "$out" | tail -1 | cut -c1-160)";
  else echo "RC$rc $SEED $P $TIER :: $(echo "$out" | tail -4 | tr '\n' ' ' | cut -c1-300)"; fi
done
cleanup
