#!/usr/bin/env python3
"""tools/seedsweep.py [-j N] [--only id,id,...] [--no-run]

For every seeded change listed in notes/seed-results.tsv whose independent
confirmation succeeded (/tmp/seed/verdicts/<id>.json, written by
tools/seedverify.py; a seed already kept under seeded/ keeps its recorded
confirmation):
  * keep it under /verif/seeded/<id>/ (patch.diff, the demonstration,
    meta.json with the confirmation and what the check did when the seed
    arrived),
  * re-run the check of its property against a scratch worktree carrying the
    patch (tools/seedtest.sh, quick tier) and record the outcome as
    checks.now / checks.now_key in meta.json.
Then regenerate section 9 of DESIGN.md (tools/seedtable.py)."""
import concurrent.futures as cf
import json, os, re, shutil, subprocess, sys

ROOT = os.path.dirname(os.path.dirname(os.path.abspath(__file__)))
args = sys.argv[1:]
jobs, only, run = 3, None, True
i = 0
while i < len(args):
    if args[i] == "-j":
        jobs = int(args[i + 1]); i += 2
    elif args[i] == "--only":
        only = set(args[i + 1].split(",")); i += 2
    elif args[i] == "--no-run":
        run = False; i += 1
    else:
        i += 1

rows = []
for line in open(os.path.join(ROOT, "notes", "seed-results.tsv")):
    if line.startswith("#") or not line.strip():
        continue
    sid, rnd, src, first, note = (line.rstrip("\n").split("\t") + [""] * 5)[:5]
    if only and sid not in only:
        continue
    rows.append((sid, int(rnd), src, {"C": "CAUGHT", "M": "MISSED"}[first], note))


def keep(sid, rnd, src, first, note):
    dst = os.path.join(ROOT, "seeded", sid)
    mpath = os.path.join(dst, "meta.json")
    if os.path.exists(mpath):
        meta = json.load(open(mpath))
    else:
        vp = "/tmp/seed/verdicts/%s.json" % sid
        try:
            verdict = json.load(open(vp))
        except Exception:
            return None, "no verdict"
        if not verdict.get("ok"):
            return None, "not confirmed (suite=%s demo fails %s passes %s)" % (verdict.get("suite_passes_with_patch"), verdict.get("demo_fails_with_patch"), verdict.get("demo_passes_without_patch"))
        meta = json.load(open(os.path.join(src, "meta.json")))
        os.makedirs(dst, exist_ok=True)
        for f in meta.get("demo", {}).get("files", []):
            shutil.copyfile(os.path.join(src, os.path.basename(f)), os.path.join(dst, os.path.basename(f)))
        meta["id"] = sid
        meta["breaks_property"] = meta.get("property")
        meta["round"] = rnd
        meta["confirmed"] = {
            "how": "tools/seedverify.py in a scratch worktree of /repo HEAD: patch applies and builds; repository suite (tag off) compared with the stable-pass list of BASELINE.json (best of up to four runs); demonstration run 3x with and 3x without the patch",
            "suite_passes_with_patch": verdict.get("suite_passes_with_patch"),
            "demo_fails_with_patch": verdict.get("demo_fails_with_patch"),
            "demo_passes_without_patch": verdict.get("demo_passes_without_patch"),
            "changed_files": verdict.get("changed"),
        }
        meta["checks"] = {"when_it_arrived": first, "note": note}
    # the patch is always refreshed from the source directory (it may have been re-based)
    if os.path.exists(os.path.join(src, "patch.diff")):
        shutil.copyfile(os.path.join(src, "patch.diff"), os.path.join(dst, "patch.diff"))
    meta.setdefault("checks", {})["when_it_arrived"] = meta["checks"].get("when_it_arrived", first)
    meta["checks"]["ran"] = "tools/seedtest.sh seeded/%s quick  (./check %s --tier quick against a scratch worktree of /repo HEAD carrying the patch)" % (sid, meta.get("property"))
    if note and not meta["checks"].get("note"):
        meta["checks"]["note"] = note
    return meta, dst


def sweep(row):
    sid, rnd, src, first, note = row
    meta, dst = keep(sid, rnd, src, first, note)
    if meta is None:
        return "%s SKIPPED %s" % (sid, dst)
    if run:
        p = subprocess.run([os.path.join(ROOT, "tools", "seedtest.sh"), dst, "quick"], stdout=subprocess.PIPE, stderr=subprocess.STDOUT, text=True, cwd=ROOT)
        out = p.stdout.strip().splitlines()
        line = out[-1] if out else ""
        m = re.match(r"^(CAUGHT|MISSED|RC\d+|NOAPPLY|NOBUILD)", line)
        if not m:
            # a transient failure of the scratch worktree (several sweeps
            # share /repo's worktree list): once more, alone
            p = subprocess.run([os.path.join(ROOT, "tools", "seedtest.sh"), dst, "quick"], stdout=subprocess.PIPE, stderr=subprocess.STDOUT, text=True, cwd=ROOT)
            out = p.stdout.strip().splitlines()
            line = out[-1] if out else ""
            m = re.match(r"^(CAUGHT|MISSED|RC\d+|NOAPPLY|NOBUILD)", line)
        meta["checks"]["now"] = m.group(1) if m else "?"
        k = re.search(r"key=(\S+)", line)
        meta["checks"]["now_key"] = k.group(1) if k else ("" if m else line[:120])
    json.dump(meta, open(os.path.join(dst, "meta.json"), "w"), indent=1)
    open(os.path.join(dst, "meta.json"), "a").write("\n")
    return "%s %s -> %s %s" % (sid, meta["checks"]["when_it_arrived"], meta["checks"].get("now", "?"), meta["checks"].get("now_key", ""))


def disk_used():
    st = os.statvfs("/")
    return 1.0 - st.f_bavail / st.f_blocks


# in chunks, so that the go build cache (every scratch worktree compiles the
# library afresh) can be emptied while nothing is building
for i in range(0, len(rows), jobs * 4):
    with cf.ThreadPoolExecutor(max_workers=jobs) as ex:
        for r in ex.map(sweep, rows[i:i + jobs * 4]):
            print(r, flush=True)
    if run and disk_used() > 0.6:
        subprocess.run(["go", "clean", "-cache"], env=dict(os.environ, GOFLAGS="-mod=mod", GOTOOLCHAIN="local"))
subprocess.run([sys.executable, os.path.join(ROOT, "tools", "seedtable.py")])
