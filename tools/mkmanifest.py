#!/usr/bin/env python3
"""Regenerate /verif/MANIFEST.json from harness/*/plan.json (one per claimed
property) and properties.jsonl; properties without a plan are listed under
not_applicable with the reason given in tools/not_applicable.json (or a
placeholder while the check is still being built)."""
import glob, json, os, subprocess
ROOT = os.path.dirname(os.path.dirname(os.path.abspath(__file__)))
props = [json.loads(l) for l in open(os.path.join(ROOT, "properties.jsonl")) if l.strip()]
plans = {}
for p in glob.glob(os.path.join(ROOT, "harness", "*", "plan.json")):
    pl = json.load(open(p)); plans[pl["property"]] = pl
na_file = os.path.join(ROOT, "tools", "not_applicable.json")
na_reason = json.load(open(na_file)) if os.path.exists(na_file) else {}
hooks = subprocess.run(["git", "-C", "/repo", "log", "--format=%H", "--grep=^verif:"], stdout=subprocess.PIPE, text=True).stdout.split()
checks, na = [], []
for pr in props:
    pid = pr["id"]
    pl = plans.get(pid)
    if not pl:
        na.append({"property_id": pid, "reason": na_reason.get(pid, "check not built yet in this session (work in progress); see DESIGN.md section 5 for the planned generated check")})
        continue
    checks.append({
        "property_id": pid,
        "quick_cmd": "./check %s --tier quick" % pid,
        "thorough_cmd": "./check %s --tier thorough" % pid,
        "evidence_file": "/verif/evidence/%s.json" % pid,
        "replay_cmd_template": "./check %s --replay {path}" % pid,
        "engine": "rapid-harness",
        "level_claimed": {
            "category": "exploration",
            "text": pl.get("level_text", "Generated-input search (pgregory.net/rapid) against an explicit independent oracle; no counter-example among the counted distinct non-trivial cases. Not a proof."),
            "design_ref": "DESIGN.md section 5, " + pid,
        },
        "level_note": pl.get("level_note", "Trusted: the oracle/model in harness/%s, rapid's generators, the Go runtime." % os.path.basename(pl.get("dir", pid.lower()))) ,
        "technique": pl.get("technique", "property-based testing (rapid) with an independent model oracle"),
    })
m = {
    "version": 1,
    "setup_cmd": "./check --setup",
    "hooks": {
        "guard": "verif",
        "enable": "go test -tags verif (the harness module replaces github.com/tychoish/fun with /repo); yield points are registered through github.com/tychoish/fun/verifhook",
        "baseline_off_cmd": "cd /repo && GOFLAGS=-mod=mod GOPROXY=off GOSUMDB=off GOTOOLCHAIN=local go test -json -vet=off -count=1 -timeout 25m ./...",
        "source_commits": hooks,
        "add_only": True,
    },
    "engines": [{
        "name": "rapid-harness",
        "path": "/verif/harness",
        "serves_properties": sorted(plans),
        "kind_free_text": "Go module (replace github.com/tychoish/fun => /repo) of rapid property tests, state machines, porcupine linearizability checks and race-detector drivers, run and aggregated by /verif/check",
    }],
    "checks": checks,
    "not_applicable": na,
    "notes": "Every check is generated-input search with an explicit oracle (property-based testing / fuzzing). known_findings.txt lists open and fixed findings; replays/<id>/ holds the committed regression cases run first by every quick check.",
}
json.dump(m, open(os.path.join(ROOT, "MANIFEST.json"), "w"), indent=1)
print("MANIFEST: %d checks, %d not_applicable" % (len(checks), len(na)))
