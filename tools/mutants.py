#!/usr/bin/env python3
"""tools/mutants.py [-j N] [--tier quick|thorough] [--suite] [id-substring ...]

Sensitivity matrix: apply each hand-written mutation of notes/mutants.json
({id, property, file, old, new, note}) to a scratch worktree of /repo's HEAD,
check that the library still builds, run the check of the property against
that tree (VERIF_REPO), remove the worktree.  --suite also runs the tests of
the touched package (build tag off) to tell whether the repository's own
suite notices the mutation.  Results: one line per mutant on stdout and
notes/mutants-results.txt (rewritten)."""
import concurrent.futures as cf
import hashlib, json, os, shutil, subprocess, sys

ROOT = os.path.dirname(os.path.dirname(os.path.abspath(__file__)))
env = dict(os.environ, GOFLAGS="-mod=mod -trimpath", GOPROXY="off", GOSUMDB="off", GOTOOLCHAIN="local")
args = sys.argv[1:]
jobs, tier, suite, filt = 3, "quick", False, []
i = 0
while i < len(args):
    if args[i] == "-j":
        jobs = int(args[i + 1]); i += 2
    elif args[i] == "--tier":
        tier = args[i + 1]; i += 2
    elif args[i] == "--suite":
        suite = True; i += 1
    else:
        filt.append(args[i]); i += 1
muts = json.load(open(os.path.join(ROOT, "notes", "mutants.json")))
if filt:
    muts = [m for m in muts if any(f in m["id"] or f == m["property"] for f in filt)]


def sh(cmd, cwd=None, extra=None, timeout=3600):
    e = dict(env)
    if extra:
        e.update(extra)
    p = subprocess.run(cmd, shell=True, cwd=cwd, env=e, stdout=subprocess.PIPE, stderr=subprocess.STDOUT, text=True, timeout=timeout)
    return p.returncode, p.stdout


def run(m):
    wt = "/tmp/mutrun/%s.%d" % (m["id"], os.getpid())
    os.makedirs("/tmp/mutrun", exist_ok=True)
    sh("git -C /repo worktree remove --force %s" % wt)
    rc, out = sh("git -C /repo worktree add -q --detach %s HEAD" % wt)
    if rc != 0:
        return "ERROR %s worktree: %s" % (m["id"], out[-200:])
    try:
        p = os.path.join(wt, m["file"])
        s = open(p).read()
        if s.count(m["old"]) < 1:
            return "NOMATCH %s %s" % (m["id"], m["file"])
        open(p, "w").write(s.replace(m["old"], m["new"], 1))
        rc, out = sh("go build ./...", cwd=wt)
        if rc != 0:
            return "NOBUILD %s :: %s" % (m["id"], out.strip().splitlines()[-1][:200] if out.strip() else "")
        suite_note = ""
        if suite:
            pkg = "./" + (os.path.dirname(m["file"]) or ".")
            rc, out = sh("go test -count=1 %s" % pkg, cwd=wt, timeout=1800)
            suite_note = " [suite %s: %s]" % (pkg, "passes" if rc == 0 else "FAILS")
        res = []
        for prop in m["property"].split(","):
            rc, out = sh("./check %s --tier %s" % (prop, tier), cwd=ROOT, extra={"VERIF_REPO": wt})
            if rc == 1:
                key = [l.strip() for l in out.splitlines() if l.startswith("  key=")]
                res.append("CAUGHT %s %s %s%s :: %s" % (m["id"], prop, tier, suite_note, key[0] if key else ""))
            elif rc == 0:
                res.append("MISSED %s %s %s%s :: %s" % (m["id"], prop, tier, suite_note, m.get("note", "")))
            else:
                res.append("RC%d %s %s %s%s :: %s" % (rc, m["id"], prop, tier, suite_note, " ".join(out.strip().splitlines()[-3:])[:300]))
        return "\n".join(res)
    finally:
        sh("git -C /repo worktree remove --force %s" % wt)
        shutil.rmtree(wt, ignore_errors=True)
        shutil.rmtree(os.path.join(ROOT, ".alt", hashlib.sha1(wt.encode()).hexdigest()[:12]), ignore_errors=True)


lines = []
with cf.ThreadPoolExecutor(max_workers=jobs) as ex:
    for r in ex.map(run, muts):
        print(r, flush=True)
        lines.append(r)
if not filt:
    with open(os.path.join(ROOT, "notes", "mutants-results.txt"), "w") as f:
        f.write("\n".join(lines) + "\n")
