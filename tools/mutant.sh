#!/bin/bash
# tools/mutant.sh <property> <sed-expression> <file-in-repo> [tier]
# Apply a one-line mutation to /repo, check that it still builds, run the
# property's check, then revert.  Prints CAUGHT / MISSED / NOBUILD.
set -u
P=$1; EXPR=$2; F=$3; TIER=${4:-quick}
cd /repo || exit 2
if ! git diff --quiet; then echo "repo dirty"; exit 2; fi
sed -i -E "$EXPR" "$F"
if git diff --quiet; then echo "NOCHANGE $P $F $EXPR"; exit 0; fi
export GOFLAGS=-mod=mod GOPROXY=off GOSUMDB=off GOTOOLCHAIN=local
if ! go build ./... >/dev/null 2>&1; then echo "NOBUILD $P $F $EXPR"; git checkout -- .; exit 0; fi
out=$(cd /verif && ./check $P --tier $TIER 2>&1); rc=$?
git checkout -- .
if [ $rc -eq 1 ]; then echo "CAUGHT $P $F $EXPR :: $(echo "$out" | grep -m1 -A1 '^  key=' | tr '\n' ' ' | cut -c1-200)"; 
elif [ $rc -eq 0 ]; then echo "MISSED $P $F $EXPR"; else echo "RC$rc $P $F $EXPR :: $(echo "$out" | tail -3 | tr '\n' ' ' | cut -c1-300)"; fi
