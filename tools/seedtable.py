#!/usr/bin/env python3
"""Regenerate section 9 of DESIGN.md (between the SEEDTABLE markers) from seeded/*/meta.json."""
import glob, json, os, re
ROOT = os.path.dirname(os.path.dirname(os.path.abspath(__file__)))
rows = []
missed_first = caught_now = 0
for d in sorted(glob.glob(os.path.join(ROOT, "seeded", "*"))):
    m = json.load(open(os.path.join(d, "meta.json")))
    c = m.get("checks", {})
    first, now = c.get("when_it_arrived", "?"), c.get("now", "?")
    missed_first += first == "MISSED"
    caught_now += now == "CAUGHT"
    summ = re.sub(r"\s+", " ", m.get("summary", "")).replace("|", "/")
    if len(summ) > 230:
        summ = summ[:227] + "..."
    note = re.sub(r"\s+", " ", ((c.get("now_key") or "") + ("; " + c.get("note") if c.get("note") else ""))).replace("|", "/")
    rows.append("| %s | %s | %s | %s | %s | %s |" % (m.get("id"), ", ".join(m.get("files", [])), summ, first, now, note))
table = "\n".join(["| seed | files | change | check when it arrived | check now | caught through / what was added |", "|---|---|---|---|---|---|"] + rows)
head = "%d seeded changes are kept; %d were missed by the check of their property when they arrived, %d are caught now (quick tier).\n\n" % (len(rows), missed_first, caught_now)
p = os.path.join(ROOT, "DESIGN.md")
s = open(p).read()
a, b = "<!-- SEEDTABLE:BEGIN -->", "<!-- SEEDTABLE:END -->"
i, j = s.index(a) + len(a), s.index(b)
open(p, "w").write(s[:i] + "\n" + head + table + "\n" + s[j:])
print(head.strip())
