// Package c03 decides property C03: the worker-group error contract of
// ProcessParallel / ParallelForEach / itertool.Worker / Map /
// GenerateParallel under every WorkerGroupConf.
package c03

import (
	"bytes"
	"context"
	"errors"
	"fmt"
	"io"
	"os"
	"runtime"
	"sort"
	"strconv"
	"sync"
	"sync/atomic"
	"testing"
	"time"

	"github.com/tychoish/fun"
	"github.com/tychoish/fun/erc"
	"github.com/tychoish/fun/ers"
	"github.com/tychoish/fun/itertool"
	"pgregory.net/rapid"

	"verif/harness/vkit"
)

func TestMain(m *testing.M) { vkit.Main(m) }

const tErr = "TestErrorContract"

// Fault is one planned failure of the user function.
type Fault struct {
	Pos      int    `json:"pos"`
	Kind     string `json:"kind"` // error | wrapped | lookalike | panic-error | panic-string | panic-value | panic-eof | panic-skip | panic-ctx | skip | eof | abort | ctx
	Excluded bool   `json:"excluded"`
	// Slow: the call fails late - it waits (bounded) until another call's
	// stopping failure has returned and then a little longer, so that its
	// own failure arrives while the group is already being torn down.
	Slow bool `json:"slow,omitempty"`
}

type Case struct {
	Construct       string  `json:"construct"` // ProcessParallel | ParallelForEach | Worker | Map | Generate
	Workers         int     `json:"workers"`
	N               int     `json:"n"`
	ContinueOnError bool    `json:"continue_on_error"`
	ContinueOnPanic bool    `json:"continue_on_panic"`
	IncludeCtx      bool    `json:"include_context_errors"`
	Collector       string  `json:"collector"` // default | erc | pair
	Faults          []Fault `json:"faults"`
	// OptionForm says how the configuration reaches the call: "options"
	// (one provider per setting, all exclusions in one AddExcludeErrors),
	// "split" (one AddExcludeErrors per excluded error), "set" (a
	// prepared WorkerGroupConf through WorkerGroupConfSet carrying the
	// first exclusion, the rest added afterwards)
	OptionForm string `json:"option_form,omitempty"`
	// NilExclusions: that many nil entries precede the excluded errors in
	// the list (an optional sentinel that is not set); they exclude nothing
	NilExclusions int   `json:"nil_exclusions,omitempty"`
	Yields        []int `json:"yields"`
	Procs         int   `json:"gomaxprocs"`
}

func goid() int {
	buf := make([]byte, 64)
	buf = buf[:runtime.Stack(buf, false)]
	buf = bytes.TrimPrefix(buf, []byte("goroutine "))
	if i := bytes.IndexByte(buf, ' '); i > 0 {
		n, _ := strconv.Atoi(string(buf[:i]))
		return n
	}
	return -1
}

type panicValue struct{ n int }

// timeoutError is what a network read past its deadline looks like.
type timeoutError struct{}

func (timeoutError) Error() string   { return "i/o timeout" }
func (timeoutError) Timeout() bool   { return true }
func (timeoutError) Temporary() bool { return true }

// lookalikes are failures that resemble the sentinels the worker groups
// treat specially (end of input, expired context) without being them.
var lookalikes = []error{os.ErrDeadlineExceeded, io.ErrUnexpectedEOF, errors.New("EOF"), errors.New("context canceled"), timeoutError{}, io.ErrClosedPipe}

// stops says whether the fault ends the run in this configuration, and
// reported whether errors.Is must find it afterwards.
func (c *Case) classify(f Fault) (stops, reported bool) {
	switch f.Kind {
	case "error", "wrapped":
		return !c.ContinueOnError, !f.Excluded
	case "lookalike":
		// an ordinary failure that merely resembles one of the sentinels
		return !c.ContinueOnError, true
	case "abort":
		return !c.ContinueOnError, true
	case "panic-error", "panic-string", "panic-value", "panic-eof", "panic-skip", "panic-ctx":
		return !c.ContinueOnPanic, true
	case "skip":
		return false, false
	case "eof":
		return true, false
	case "ctx":
		return true, c.IncludeCtx
	}
	panic("unknown fault kind " + f.Kind)
}

type run struct {
	c            *Case
	mu           sync.Mutex
	started      map[int]int // item -> number of starts
	order        []int       // items in start order
	byG          map[int][]int
	executed     map[int]bool // fault positions that fired
	clock        atomic.Int64
	failedAt     atomic.Int64 // stamp taken right before the first stopping failure returned
	failG        atomic.Int64
	failItem     atomic.Int64
	startedAfter atomic.Int64
	hold         chan struct{} // items that start after the failure wait here
	drained      chan struct{} // closed when the consumer has seen the end of the output / the call returned
	gctx         atomic.Value  // the context the library handed to the failing call
	bases        map[int]error
}

func (r *run) fault(pos int) (Fault, bool) {
	for _, f := range r.c.Faults {
		if f.Pos == pos {
			return f, true
		}
	}
	return Fault{}, false
}

// body is the user function for item v.
func (r *run) body(ctx context.Context, v int) error {
	g := goid()
	r.mu.Lock()
	r.started[v]++
	r.order = append(r.order, v)
	r.byG[g] = append(r.byG[g], v)
	r.mu.Unlock()
	if r.failedAt.Load() != 0 {
		r.startedAfter.Add(1)
		<-r.hold
	}
	vkit.Yield(r.c.Yields[v%len(r.c.Yields)])
	f, ok := r.fault(v)
	if !ok {
		return nil
	}
	r.mu.Lock()
	r.executed[v] = true
	r.mu.Unlock()
	if f.Slow {
		vkit.Eventually(30*time.Millisecond, func() bool { return r.failedAt.Load() != 0 })
		select {
		case <-r.drained:
		case <-time.After(15 * time.Millisecond):
		}
	}
	stops, _ := r.c.classify(f)
	if r.c.Construct == "Generate" && f.Kind == "eof" {
		// the regular end of a generator: ends this worker only
		stops = false
	}
	if stops && r.failedAt.CompareAndSwap(0, r.clock.Add(1)) {
		r.failG.Store(int64(g))
		r.failItem.Store(int64(v))
		r.gctx.Store(&ctx)
	}
	base := r.bases[v]
	switch f.Kind {
	case "error":
		return base
	case "wrapped":
		return fmt.Errorf("wrapped: %w", base)
	case "lookalike":
		return fmt.Errorf("%w: %w", base, lookalikes[v%len(lookalikes)])
	case "panic-error":
		panic(base)
	case "panic-string":
		panic(fmt.Sprint("string panic at ", v))
	case "panic-value":
		panic(panicValue{v})
	case "panic-eof":
		// a panic whose value wraps a sentinel is still a panic
		panic(fmt.Errorf("%w: reading frame: %w", base, io.EOF))
	case "panic-skip":
		panic(fmt.Errorf("%w: %w", base, fun.ErrIteratorSkip))
	case "panic-ctx":
		panic(fmt.Errorf("%w: %w", base, context.Canceled))
	case "skip":
		return fun.ErrIteratorSkip
	case "eof":
		return io.EOF
	case "abort":
		return ers.ErrCurrentOpAbort
	default:
		return context.Canceled
	}
}

func (c *Case) options() []fun.OptionProvider[*fun.WorkerGroupConf] {
	opts := []fun.OptionProvider[*fun.WorkerGroupConf]{fun.WorkerGroupConfNumWorkers(c.Workers)}
	if c.ContinueOnError {
		opts = append(opts, fun.WorkerGroupConfContinueOnError())
	}
	if c.ContinueOnPanic {
		opts = append(opts, fun.WorkerGroupConfContinueOnPanic())
	}
	if c.IncludeCtx {
		opts = append(opts, fun.WorkerGroupConfIncludeContextErrors())
	}
	return opts
}

func runCase(c *Case) (string, string, *run) {
	if c.Procs > 0 {
		old := runtime.GOMAXPROCS(c.Procs)
		defer runtime.GOMAXPROCS(old)
	}
	limit := vkit.Limit()
	r := &run{c: c, started: map[int]int{}, byG: map[int][]int{}, executed: map[int]bool{}, hold: make(chan struct{}), drained: make(chan struct{}), bases: map[int]error{}}
	opts := c.options()
	var excluded []error
	for _, f := range c.Faults {
		r.bases[f.Pos] = fmt.Errorf("base error of item %d", f.Pos)
		if f.Excluded && (f.Kind == "error" || f.Kind == "wrapped") {
			excluded = append(excluded, r.bases[f.Pos])
		}
	}
	if len(excluded) > 0 && c.NilExclusions > 0 {
		excluded = append(make([]error, c.NilExclusions), excluded...)
	}
	switch {
	case len(excluded) == 0:
	case c.OptionForm == "split":
		for _, e := range excluded {
			opts = append(opts, fun.WorkerGroupConfAddExcludeErrors(e))
		}
	case c.OptionForm == "set":
		base := &fun.WorkerGroupConf{NumWorkers: c.Workers, ContinueOnError: c.ContinueOnError, ContinueOnPanic: c.ContinueOnPanic, IncludeContextExpirationErrors: c.IncludeCtx, ExcludedErrors: excluded[:c.NilExclusions+1]}
		opts = []fun.OptionProvider[*fun.WorkerGroupConf]{fun.WorkerGroupConfSet(base)}
		if len(excluded) > c.NilExclusions+1 {
			opts = append(opts, fun.WorkerGroupConfAddExcludeErrors(excluded[c.NilExclusions+1:]...))
		}
	default:
		opts = append(opts, fun.WorkerGroupConfAddExcludeErrors(excluded...))
	}
	// with a custom collector Map / Generate report there rather than
	// through the output iterator's Close
	custom := func() error { return nil }
	switch c.Collector {
	case "erc":
		ec := &erc.Collector{}
		custom = ec.Resolve
		opts = append(opts, fun.WorkerGroupConfWithErrorCollector(ec))
	case "pair":
		eh, ef := fun.HF.ErrorCollector()
		custom = ef
		opts = append(opts, fun.WorkerGroupConfErrorCollectorPair(eh, ef))
	}
	in := make([]int, c.N)
	for i := range in {
		in[i] = i
	}
	ctx, cancel := context.WithCancel(context.Background())
	defer cancel()

	var result error
	var escaped any
	var output []int
	finished := make(chan struct{})
	go func() {
		defer close(finished)
		defer func() { escaped = recover() }()
		drainedOnce := sync.OnceFunc(func() { close(r.drained) })
		defer drainedOnce()
		switch c.Construct {
		case "ProcessParallel":
			result = fun.SliceIterator(in).ProcessParallel(func(ctx context.Context, v int) error { return r.body(ctx, v) }, opts...).Run(ctx)
		case "ParallelForEach":
			result = itertool.ParallelForEach(ctx, fun.SliceIterator(in), func(ctx context.Context, v int) error { return r.body(ctx, v) }, opts...)
		case "Worker":
			ws := make([]fun.Worker, c.N)
			for i := range ws {
				v := i
				ws[i] = func(ctx context.Context) error { return r.body(ctx, v) }
			}
			result = itertool.Worker(ctx, fun.SliceIterator(ws), opts...)
		case "Map":
			it := fun.Map(fun.SliceIterator(in), func(ctx context.Context, v int) (int, error) { return v, r.body(ctx, v) }, opts...)
			output, _ = it.Slice(ctx)
			drainedOnce()
			result = ers.Join(it.Close(), custom())
		case "Generate":
			var idx atomic.Int64
			it := fun.Producer[int](func(ctx context.Context) (int, error) {
				v := int(idx.Add(1)) - 1
				if v >= c.N {
					return 0, io.EOF
				}
				return v, r.body(ctx, v)
			}).GenerateParallel(opts...)
			output, _ = it.Slice(ctx)
			drainedOnce()
			result = ers.Join(it.Close(), custom())
		}
	}()

	// once a stopping failure is about to return: give the library the
	// chance to stop the other workers (observed through the context it
	// handed to the call), then let the held items go
	released := false
	release := func() {
		if !released {
			released = true
			close(r.hold)
		}
	}
	deadline := time.After(4 * limit)
	tick := time.NewTicker(200 * time.Microsecond)
	defer tick.Stop()
	waitedFrom := time.Time{}
loop:
	for {
		select {
		case <-finished:
			break loop
		case <-deadline:
			release()
			cancel()
			select {
			case <-finished:
			case <-time.After(limit):
			}
			return "termination", fmt.Sprintf("the run did not end within %v (started %d of %d items)", 4*limit, len(r.order), c.N), r
		case <-tick.C:
			if released || r.failedAt.Load() == 0 {
				continue
			}
			if waitedFrom.IsZero() {
				waitedFrom = time.Now()
			}
			gc, _ := r.gctx.Load().(*context.Context)
			if (gc != nil && (*gc).Err() != nil) || time.Since(waitedFrom) > limit {
				release()
			}
		}
	}
	release()

	if escaped != nil {
		return "panic-escaped", fmt.Sprintf("a panic escaped from %s: %v", c.Construct, escaped), r
	}
	r.mu.Lock()
	defer r.mu.Unlock()
	anyReportable, anyStop := false, false
	for _, f := range c.Faults {
		if !r.executed[f.Pos] {
			continue
		}
		stops, reported := c.classify(f)
		anyStop = anyStop || stops
		base := r.bases[f.Pos]
		switch f.Kind {
		case "error", "wrapped", "lookalike":
			if reported {
				anyReportable = true
				if !errors.Is(result, base) {
					return "swallowed", fmt.Sprintf("the %s of item %d is not reported: result %v", f.Kind, f.Pos, result), r
				}
			} else if errors.Is(result, base) {
				return "excluded-reported", fmt.Sprintf("the error of item %d is listed in ExcludedErrors but is reported: %v", f.Pos, result), r
			}
		case "panic-error", "panic-eof", "panic-skip", "panic-ctx":
			anyReportable = true
			if !errors.Is(result, base) || !errors.Is(result, fun.ErrRecoveredPanic) {
				return "swallowed", fmt.Sprintf("panic(error) of item %d: result %v lacks the error or ErrRecoveredPanic", f.Pos, result), r
			}
		case "panic-string", "panic-value":
			anyReportable = true
			if !errors.Is(result, fun.ErrRecoveredPanic) {
				return "swallowed", fmt.Sprintf("%s of item %d: result %v lacks ErrRecoveredPanic", f.Kind, f.Pos, result), r
			}
		case "ctx":
			if reported {
				anyReportable = true
				if !errors.Is(result, context.Canceled) {
					return "swallowed", fmt.Sprintf("context error of item %d not reported although IncludeContextExpirationErrors is set: %v", f.Pos, result), r
				}
			}
		case "abort":
			// the statement does not fix whether ErrCurrentOpAbort is
			// reported: exercised for crash-freedom and termination
			anyReportable = anyReportable || errors.Is(result, ers.ErrCurrentOpAbort)
		}
	}
	hasAbort := false
	for _, f := range c.Faults {
		hasAbort = hasAbort || (f.Kind == "abort" && r.executed[f.Pos])
	}
	if !hasAbort && (result == nil) == anyReportable {
		return "nil-iff", fmt.Sprintf("result is %v but a reportable failure occurred: %v", result, anyReportable), r
	}
	// a sentinel that travels inside a reported panic value is part of
	// that panic's error, not noise
	carried := map[string]bool{}
	for _, f := range c.Faults {
		if r.executed[f.Pos] {
			carried[f.Kind] = true
		}
	}
	if (errors.Is(result, io.EOF) && !carried["panic-eof"]) || (errors.Is(result, fun.ErrIteratorSkip) && !carried["panic-skip"]) {
		return "noise-reported", fmt.Sprintf("io.EOF / ErrIteratorSkip is reported: %v", result), r
	}
	ctxFault := false
	for _, f := range c.Faults {
		ctxFault = ctxFault || f.Kind == "ctx"
	}
	_ = ctxFault
	if !c.IncludeCtx && errors.Is(result, context.Canceled) && !carried["panic-ctx"] {
		return "noise-reported", fmt.Sprintf("a context error is reported without IncludeContextExpirationErrors: %v", result), r
	}
	for v, n := range r.started {
		if n != 1 {
			return "twice", fmt.Sprintf("item %d was processed %d times", v, n), r
		}
	}
	if !anyStop {
		// continue modes: everything is processed exactly once
		if len(r.started) != c.N {
			return "lost", fmt.Sprintf("nothing stops the run but only %d of %d items were processed", len(r.started), c.N), r
		}
		if c.Construct == "Map" || c.Construct == "Generate" {
			want := []int{}
			for i := 0; i < c.N; i++ {
				if _, bad := r.fault(i); !bad {
					want = append(want, i)
				}
			}
			got := append([]int{}, output...)
			sort.Ints(got)
			if fmt.Sprint(got) != fmt.Sprint(want) {
				return "lost", fmt.Sprintf("output %v, want the items whose function succeeded %v", got, want), r
			}
		}
		return "", "", r
	}
	// abort: the failing worker takes no further item …
	fg, fi := int(r.failG.Load()), int(r.failItem.Load())
	if mine := r.byG[fg]; len(mine) > 0 && mine[len(mine)-1] != fi {
		for i, v := range mine {
			if v == fi {
				return "failing-worker-continued", fmt.Sprintf("the worker that failed on item %d went on to process %v", fi, mine[i+1:]), r
			}
		}
	}
	// … and the others stop after at most one more item each.  (For a
	// generator io.EOF is the regular end of the input: it ends that
	// worker, the others go on until they reach the end themselves.)
	if f, _ := r.fault(fi); c.Construct == "Generate" && f.Kind == "eof" {
		return "", "", r
	}
	if after := int(r.startedAfter.Load()); after > c.Workers {
		return "abort-does-not-stop", fmt.Sprintf("%d items were started after the first failure had returned, with %d workers (%d of %d items processed in total)", after, c.Workers, len(r.started), c.N), r
	}
	return "", "", r
}

var faultKinds = []string{"error", "error", "wrapped", "lookalike", "panic-error", "panic-string", "panic-value", "panic-eof", "panic-skip", "panic-ctx", "skip", "eof", "abort", "ctx"}

func genCase(t *rapid.T) *Case {
	c := &Case{
		Construct:       rapid.SampledFrom([]string{"ProcessParallel", "ParallelForEach", "Worker", "Map", "Generate"}).Draw(t, "construct"),
		Workers:         rapid.IntRange(1, 6).Draw(t, "workers"),
		N:               rapid.IntRange(1, 80).Draw(t, "n"),
		ContinueOnError: rapid.Bool().Draw(t, "continueOnError"),
		ContinueOnPanic: rapid.Bool().Draw(t, "continueOnPanic"),
		IncludeCtx:      rapid.Bool().Draw(t, "includeCtx"),
		Collector:       rapid.SampledFrom([]string{"default", "default", "erc", "pair"}).Draw(t, "collector"),
		Yields:          rapid.SliceOfN(rapid.IntRange(0, 3), 1, 5).Draw(t, "yields"),
		Procs:           rapid.SampledFrom([]int{1, 2, 4, 16}).Draw(t, "gomaxprocs"),
		OptionForm:      rapid.SampledFrom([]string{"options", "options", "split", "set"}).Draw(t, "optionForm"),
	}
	if rapid.IntRange(0, 3).Draw(t, "nilExclusions") == 0 {
		c.NilExclusions = rapid.IntRange(1, 2).Draw(t, "nilExclusionCount")
	}
	nf := rapid.IntRange(0, 3).Draw(t, "faults")
	used := map[int]bool{}
	for i := 0; i < nf; i++ {
		var pos int
		switch rapid.IntRange(0, 3).Draw(t, "posKind") {
		case 0:
			pos = 0
		case 1:
			pos = c.N - 1
		default:
			pos = rapid.IntRange(0, c.N-1).Draw(t, "pos")
		}
		if used[pos] {
			continue
		}
		used[pos] = true
		f := Fault{Pos: pos, Kind: rapid.SampledFrom(faultKinds).Draw(t, "kind")}
		if f.Kind == "error" || f.Kind == "wrapped" {
			f.Excluded = rapid.IntRange(0, 2).Draw(t, "excluded") == 0
		}
		c.Faults = append(c.Faults, f)
	}
	// in-flight pair: a second failure right behind the first one, which
	// is still inside the user function when the first failure stops the
	// group (needs >= 2 workers to overlap; with one worker it simply
	// comes later)
	if rapid.IntRange(0, 3).Draw(t, "inFlightPair") == 0 && c.N >= 2 {
		p := rapid.IntRange(0, c.N-2).Draw(t, "pairPos")
		if !used[p] && !used[p+1] {
			c.Faults = append(c.Faults,
				Fault{Pos: p, Kind: rapid.SampledFrom([]string{"error", "wrapped", "panic-error", "panic-string"}).Draw(t, "firstKind")},
				Fault{Pos: p + 1, Kind: rapid.SampledFrom([]string{"error", "wrapped", "panic-error", "panic-value"}).Draw(t, "secondKind"), Slow: true})
		}
	}
	return c
}

func TestErrorContract(t *testing.T) {
	var rc Case
	if ok, err := vkit.ReplayCase(tErr, &rc); err != nil {
		t.Fatal(err)
	} else if ok {
		for i := 0; i < 20; i++ {
			if k, why, _ := runCase(&rc); why != "" {
				vkit.Fail(t, tErr, "C03:"+k, rc, "%s (repetition %d)", why, i)
			}
		}
		return
	}
	reps := vkit.Pick(2, 4)
	rapid.Check(t, func(t *rapid.T) {
		if vkit.AlreadyFailed(tErr) {
			return
		}
		c := genCase(t)
		fired := false
		for i := 0; i < reps; i++ {
			k, why, r := runCase(c)
			if why != "" {
				vkit.Fail(t, tErr, "C03:"+k, *c, "%s (repetition %d)", why, i)
			}
			fired = fired || len(r.executed) > 0
		}
		cls := []string{"options:" + c.OptionForm, "construct:" + c.Construct, fmt.Sprintf("continueOnError:%v", c.ContinueOnError), fmt.Sprintf("continueOnPanic:%v", c.ContinueOnPanic), "collector:" + c.Collector}
		for _, f := range c.Faults {
			cls = append(cls, "fault:"+f.Kind)
			if f.Slow {
				cls = append(cls, "fault:slow-second-failure")
			}
			if f.Excluded {
				cls = append(cls, "fault:excluded")
			}
		}
		vkit.CaseN(tErr, vkit.Hash(*c), reps, fired, cls, func() any { return *c })
	})
}
