// Package c19 decides property C19: the HDR histogram conserves counts and
// answers quantiles within its precision, for every shape and data set.
package c19

import (
	"fmt"
	"math"
	"math/bits"
	"sort"
	"testing"
	"time"

	"github.com/tychoish/fun/dt/hdrhist"
	"pgregory.net/rapid"

	"verif/harness/vkit"
)

func TestMain(m *testing.M) { vkit.Main(m) }

const tHdr = "TestHistogram"

type rec struct {
	V int64 `json:"v"`
	N int64 `json:"n"`
}

type hdrCase struct {
	Min  int64     `json:"min"`
	Max  int64     `json:"max"`
	Sig  int       `json:"sigfigs"`
	Recs []rec     `json:"records"`
	Qs   []float64 `json:"quantiles"`
}

func pow10(n int) int64 {
	out := int64(1)
	for i := 0; i < n; i++ {
		out *= 10
	}
	return out
}

// independent shape arithmetic (from the HdrHistogram definition): the
// number of sub buckets is the smallest power of two >= 2*10^sig, the unit
// is 2^floor(log2 min).
func subBucketCount(sig int) int64 {
	n := int64(1)
	for n < 2*pow10(sig) {
		n <<= 1
	}
	return n
}

func unitMag(min int64) uint {
	if min < 1 {
		return 0
	}
	return uint(bits.Len64(uint64(min)) - 1)
}

// width of the bucket that holds x
func widthAt(c *hdrCase, x int64) int64 {
	um := unitMag(c.Min)
	sbc := subBucketCount(c.Sig)
	w := int64(1) << um
	for lim := sbc << um; x >= lim && lim > 0; lim <<= 1 {
		w <<= 1
	}
	return w
}

// bound is the precision the statement promises at exact:
// max(2^floor(log2 min), exact / 10^sigfigs).
func withinBound(c *hdrCase, diff, exact int64) bool {
	if diff < 0 {
		return false
	}
	if diff <= int64(1)<<unitMag(c.Min) {
		return true
	}
	// diff <= exact / 10^sig, in integers without overflow
	return diff <= exact/pow10(c.Sig)
}

func genCase(t *rapid.T) (*hdrCase, []string) {
	c := &hdrCase{Sig: rapid.IntRange(1, 5).Draw(t, "sigfigs")}
	switch rapid.IntRange(0, 3).Draw(t, "minKind") {
	case 0:
		c.Min = 1
	case 1:
		c.Min = int64(rapid.IntRange(1, 20).Draw(t, "min"))
	case 2:
		k := rapid.IntRange(1, 20).Draw(t, "minPow")
		c.Min = (int64(1) << uint(k)) + int64(rapid.IntRange(-1, 1).Draw(t, "minOff"))
	default:
		c.Min = int64(rapid.IntRange(1, 1_000_000).Draw(t, "min"))
	}
	// the number of counters grows with sigfigs x range: keep big
	// precisions on moderate ranges so that a case stays cheap
	maxPow := map[int]int{1: 63, 2: 63, 3: 63, 4: vkit.Pick(44, 56), 5: vkit.Pick(27, 34)}[c.Sig]
	sbc := subBucketCount(c.Sig)
	um := unitMag(c.Min)
	cls := []string{fmt.Sprintf("sigfigs=%d", c.Sig)}
	switch rapid.IntRange(0, 3).Draw(t, "maxKind") {
	case 0: // exactly on / next to a bucket boundary: sbc * 2^um * 2^k
		k := rapid.IntRange(0, 30).Draw(t, "k")
		b := sbc << um
		for i := 0; i < k && b < int64(1)<<uint(maxPow-1); i++ {
			b <<= 1
		}
		c.Max = b + int64(rapid.IntRange(-1, 1).Draw(t, "maxOff"))
		cls = append(cls, "max-at-bucket-boundary")
	case 1: // small range
		c.Max = c.Min + int64(rapid.IntRange(1, 200).Draw(t, "span"))
		cls = append(cls, "max-small-range")
	case 2:
		p := rapid.IntRange(1, maxPow).Draw(t, "maxPow")
		c.Max = int64((uint64(1)<<uint(p))-1) + int64(rapid.IntRange(-1, 1).Draw(t, "maxOff"))
		if c.Max < 0 {
			c.Max = math.MaxInt64
		}
		cls = append(cls, "max-power-of-two")
	default:
		p := rapid.IntRange(1, maxPow).Draw(t, "maxPow")
		c.Max = rapid.Int64Range(1, int64((uint64(1)<<uint(p))-1)).Draw(t, "max")
	}
	if c.Max <= c.Min {
		c.Max = c.Min + 1
	}
	// values
	n := rapid.IntRange(1, 40).Draw(t, "nrecords")
	span := c.Max - c.Min
	for i := 0; i < n; i++ {
		var v int64
		switch rapid.IntRange(0, 6).Draw(t, "valueKind") {
		case 0:
			v = c.Min
		case 1:
			v = c.Max
		case 2: // uniform
			v = c.Min + rapid.Int64Range(0, span).Draw(t, "off")
		case 3: // log-uniform
			lg := bits.Len64(uint64(span))
			p := rapid.IntRange(0, lg).Draw(t, "lg")
			lim := int64(1)<<uint(p) - 1
			if lim > span || lim < 0 {
				lim = span
			}
			v = c.Min + rapid.Int64Range(0, lim).Draw(t, "off")
		case 4: // a bucket boundary (independently computed) +-1
			k := rapid.IntRange(0, 62).Draw(t, "bk")
			b := sbc << um
			for j := 0; j < k && b <= c.Max/2; j++ {
				b <<= 1
			}
			v = b + int64(rapid.IntRange(-1, 1).Draw(t, "boff"))
		case 5: // a sub bucket boundary inside some bucket
			k := rapid.IntRange(0, 62).Draw(t, "bk")
			w := int64(1) << um
			for j := 0; j < k && w <= c.Max/sbc; j++ {
				w <<= 1
			}
			v = w*rapid.Int64Range(sbc/2, sbc-1).Draw(t, "sub") + int64(rapid.IntRange(-1, 1).Draw(t, "boff"))
		default: // repeat an earlier value
			if len(c.Recs) > 0 {
				v = c.Recs[rapid.IntRange(0, len(c.Recs)-1).Draw(t, "dupOf")].V
			} else {
				v = c.Min
			}
		}
		if v < c.Min {
			v = c.Min
		}
		if v > c.Max {
			v = c.Max
		}
		cnt := int64(1)
		if rapid.IntRange(0, 4).Draw(t, "multi") == 0 {
			cnt = int64(rapid.IntRange(2, 50).Draw(t, "count"))
		}
		c.Recs = append(c.Recs, rec{v, cnt})
	}
	total := int64(0)
	for _, r := range c.Recs {
		total += r.N
	}
	nq := rapid.IntRange(1, 8).Draw(t, "nq")
	for i := 0; i < nq; i++ {
		switch rapid.IntRange(0, 4).Draw(t, "qKind") {
		case 4: // halfway between two ranks (k + 1/2)
			k := rapid.Int64Range(0, total-1).Draw(t, "tieRank")
			c.Qs = append(c.Qs, float64(2*k+1)*50/float64(total))
		case 0:
			c.Qs = append(c.Qs, rapid.SampledFrom([]float64{50, 90, 99, 99.9, 99.99, 100}).Draw(t, "q"))
		case 1: // an exact rank
			r := rapid.Int64Range(1, total).Draw(t, "rank")
			c.Qs = append(c.Qs, 100*float64(r)/float64(total))
		default:
			c.Qs = append(c.Qs, rapid.Float64Range(0.0001, 100).Draw(t, "q"))
		}
	}
	return c, cls
}

func check(t vkit.TB, c *hdrCase) (classes []string, nontrivial bool) {
	fail := func(key, f string, a ...any) {
		t.Helper()
		vkit.Fail(t, tHdr, "C19:"+key, c, f, a...)
	}
	// a panic out of the library is reported under the phase it
	// happened in (the statement: no valid call sequence trips the
	// internal invariant panics).
	key, failing := "panic", false
	defer func() {
		if r := recover(); r != nil {
			if !failing {
				failing = true
				vkit.Fail(t, tHdr, "C19:"+key, c, "panic: %v", r)
			}
			panic(r)
		}
	}()
	realFail := fail
	fail = func(k, f string, a ...any) { t.Helper(); failing = true; realFail(k, f, a...) }

	key = "new-panic"
	h := hdrhist.New(c.Min, c.Max, c.Sig)
	var data []int64 // expanded, sorted later
	total := int64(0)
	key = "record-panic"
	for _, r := range c.Recs {
		var err error
		if r.N == 1 {
			err = h.RecordValue(r.V)
		} else {
			err = h.RecordValues(r.V, r.N)
		}
		if err != nil {
			fail("record", "New(%d,%d,%d): recording %d (in range) failed: %v", c.Min, c.Max, c.Sig, r.V, err)
		}
		total += r.N
		for i := int64(0); i < r.N; i++ {
			data = append(data, r.V)
		}
	}
	sort.Slice(data, func(i, j int) bool { return data[i] < data[j] })
	if h.TotalCount() != total {
		fail("total", "TotalCount()=%d after recording %d occurrences", h.TotalCount(), total)
	}
	key = "quantile-panic"
	tested, ties := 0, 0
	for _, q := range c.Qs {
		x := q / 100 * float64(total)
		r1, r2 := int64(math.Floor(x+0.5-1e-9)), int64(math.Floor(x+0.5+1e-9))
		if x == math.Floor(x)+0.5 {
			// exactly halfway between two ranks: HdrHistogram counts
			// (q/100)*total + 0.5 truncated, i.e. the tie goes up -
			// the median of one value is that value
			r1 = int64(math.Floor(x)) + 1
			r2 = r1
			ties++
		}
		if r1 != r2 || r1 < 1 {
			// a near-tie that floating point may round either way, or
			// a rank below one: the statement is silent
			h.ValueAtQuantile(q)
			continue
		}
		rank := r1
		if rank > total {
			rank = total
		}
		exact := data[rank-1]
		v := h.ValueAtQuantile(q)
		if v < exact || !withinBound(c, v-exact, exact) {
			fail("quantile", "ValueAtQuantile(%v)=%d, exact order statistic (rank %d of %d) is %d; allowed excess max(%d, %d)", q, v, rank, total, exact, int64(1)<<unitMag(c.Min), exact/pow10(c.Sig))
		}
		if v-exact >= widthAt(c, exact) {
			fail("quantile", "ValueAtQuantile(%v)=%d exceeds exact=%d by a full bucket width (%d)", q, v, exact, widthAt(c, exact))
		}
		tested++
	}
	key = "minmax-panic"
	lo, hi := data[0], data[len(data)-1]
	if mn := h.Min(); mn > lo || !withinBound(c, lo-mn, lo) {
		fail("min", "Min()=%d, smallest recorded value %d", mn, lo)
	}
	if mx := h.Max(); mx < hi || !withinBound(c, mx-hi, hi) {
		fail("max", "Max()=%d, largest recorded value %d", mx, hi)
	}
	key = "export-panic"
	imp := hdrhist.Import(h.Export())
	if !imp.Equals(h) || !h.Equals(imp) || imp.TotalCount() != total {
		fail("export-import", "Import(Export()) is not Equal to the original (TotalCount %d vs %d)", imp.TotalCount(), total)
	}
	key = "merge-panic"
	fresh := hdrhist.New(c.Min, c.Max, c.Sig)
	if dropped := fresh.Merge(h); dropped != 0 || !fresh.Equals(h) {
		fail("merge", "Merge into an empty histogram of the same shape: dropped=%d Equal=%v TotalCount=%d (want %d)", dropped, fresh.Equals(h), fresh.TotalCount(), total)
	}
	// ... and an Equal histogram answers like the original: the copies
	// bracket the data exactly as the original does
	key = "copy-queries-panic"
	for _, cp := range []struct {
		name string
		h    *hdrhist.Histogram
	}{{"Import(Export())", imp}, {"Merge into an empty histogram", fresh}} {
		if cp.h.Min() != h.Min() || cp.h.Max() != h.Max() {
			fail("copy-differs", "%s: Min/Max = %d/%d, the original answers %d/%d (recorded %d..%d)", cp.name, cp.h.Min(), cp.h.Max(), h.Min(), h.Max(), lo, hi)
		}
		for _, q := range []float64{0.001, 25, 50, 90, 99.9, 100} {
			if a, b := cp.h.ValueAtQuantile(q), h.ValueAtQuantile(q); a != b {
				fail("copy-differs", "%s: ValueAtQuantile(%v) = %d, the original answers %d", cp.name, q, a, b)
			}
		}
	}
	key = "stats-panic"
	// Mean/StdDev accumulate in int64 and may overflow for huge values;
	// the statement only asks that they do not panic.
	_, _ = h.Mean(), h.StdDev()
	sum := int64(0)
	for _, b := range h.Distribution() {
		sum += b.Count
	}
	if sum != total {
		fail("distribution", "Distribution() counts add up to %d, recorded %d", sum, total)
	}
	cd := h.CumulativeDistribution()
	if len(cd) == 0 || cd[len(cd)-1].Count != total {
		fail("distribution", "CumulativeDistribution() ends with %+v, recorded %d", cd, total)
	}
	for i := 1; i < len(cd); i++ {
		if cd[i].Count < cd[i-1].Count || cd[i].Quantile < cd[i-1].Quantile {
			fail("distribution", "CumulativeDistribution() is not monotone at %d: %+v", i, cd)
		}
	}
	// copies are independent: what Export / Import / Merge produced must
	// not change when the original goes on recording or is reset (this
	// mutates h, so it comes last)
	key = "independence-panic"
	imp2 := hdrhist.Import(h.Export())
	q50, mx2 := imp2.ValueAtQuantile(50), imp2.Max()
	_ = h.RecordValue(lo)
	_ = h.RecordValue(hi)
	if !imp2.Equals(fresh) || imp2.TotalCount() != total || imp2.ValueAtQuantile(50) != q50 || imp2.Max() != mx2 {
		fail("export-aliases", "a histogram imported from an Export changed when the original recorded two more values (TotalCount %d, want %d; q50 %d was %d; Max %d was %d)", imp2.TotalCount(), total, imp2.ValueAtQuantile(50), q50, imp2.Max(), mx2)
	}
	h.Reset()
	if !imp2.Equals(fresh) || imp2.TotalCount() != total || imp2.ValueAtQuantile(50) != q50 || imp2.Max() != mx2 || fresh.TotalCount() != total {
		fail("export-aliases", "a histogram imported from an Export (or merged from the original) changed when the original was reset (TotalCount %d / %d, want %d)", imp2.TotalCount(), fresh.TotalCount(), total)
	}
	key = "done"
	distinct := 1
	for i := 1; i < len(data); i++ {
		if data[i] != data[i-1] {
			distinct++
		}
	}
	if hi == c.Max {
		classes = append(classes, "recorded-max")
	}
	if lo == c.Min {
		classes = append(classes, "recorded-min")
	}
	if int64(len(data)) > int64(distinct) {
		classes = append(classes, "duplicates")
	}
	if widthAt(c, hi) > int64(1)<<unitMag(c.Min) {
		classes = append(classes, "spans-several-buckets")
	}
	if ties > 0 {
		classes = append(classes, "half-rank-quantile")
	}
	return classes, tested >= 1 && distinct >= 2
}

func TestHistogram(t *testing.T) {
	var rc hdrCase
	if ok, err := vkit.ReplayCase(tHdr, &rc); err != nil {
		t.Fatal(err)
	} else if ok {
		vkit.Watch(tHdr, "C19:terminates", 2*time.Minute, func() any { return rc }, func() { check(t, &rc) })
		return
	}
	rapid.Check(t, propHistogram)
}

// propHistogram is the generated property; FuzzHistogram drives the same function with
// the native coverage-guided fuzzer (rapid.MakeFuzz decodes the bytes).
func propHistogram(t *rapid.T) {
	c, cls := genCase(t)
	var cls2 []string
	var nt bool
	vkit.Watch(tHdr, "C19:terminates", 2*time.Minute, func() any { return *c }, func() { cls2, nt = check(t, c) })
	vkit.Case(tHdr, vkit.Hash(*c), nt, append(cls, cls2...), func() any { return *c })
}

func FuzzHistogram(f *testing.F) { f.Fuzz(rapid.MakeFuzz(propHistogram)) }
