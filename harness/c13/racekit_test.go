// Package c13 decides property C13: the types documented as safe for
// concurrent use never produce a data race when their public API is driven
// from several goroutines.
//
// The package is compiled with -race.  The oracle is the Go race detector:
// generated client programs (an exhaustive table of method pairs and random
// multi-goroutine programs) are run in this process, and after every
// program the race log (GORACE log_path) is read; report blocks that were
// appended while the program ran are attributed to it.  A report with a
// frame of github.com/tychoish/fun in one of its two access stacks is a
// finding keyed by the pair of innermost library functions; a report
// without any library frame is a bug of the harness (inconclusive).
//
// The drivers deliberately share nothing but the instance under test:
// no atomics, channels or mutexes of the harness are touched between two
// calls, because every such operation adds a happens-before edge that would
// hide a race of the library from the detector.
package c13

import (
	"context"
	"fmt"
	"os"
	"path/filepath"
	"runtime"
	"sort"
	"strings"
	"sync"
	"syscall"
	"testing"
	"time"

	"verif/harness/vkit"
)

func TestMain(m *testing.M) {
	if !strings.Contains(os.Getenv("GORACE"), "log_path=") {
		// run by hand (plain `go test -race`): re-exec with a race log
		// so that reports can be attributed to programs.
		d := vkit.OutDir()
		env := append(os.Environ(), "GORACE=halt_on_error=0 exitcode=66 history_size=3 log_path="+filepath.Join(d, "race"), "VERIF_OUT="+d)
		if exe, err := os.Executable(); err == nil {
			_ = syscall.Exec(exe, os.Args, env)
		}
	}
	vkit.Main(m)
}

// ---------------------------------------------------------------- race log

type raceLog struct {
	path string
	off  int64
}

func openRaceLog() *raceLog {
	g := os.Getenv("GORACE")
	i := strings.Index(g, "log_path=")
	if i < 0 {
		return &raceLog{}
	}
	p := g[i+len("log_path="):]
	if j := strings.IndexByte(p, ' '); j >= 0 {
		p = p[:j]
	}
	rl := &raceLog{path: fmt.Sprintf("%s.%d", p, os.Getpid())}
	if st, err := os.Stat(rl.path); err == nil {
		rl.off = st.Size()
	}
	return rl
}

// fresh returns the report blocks appended since the last call.
func (rl *raceLog) fresh() []string {
	if rl.path == "" {
		return nil
	}
	st, err := os.Stat(rl.path)
	if err != nil || st.Size() <= rl.off {
		return nil
	}
	f, err := os.Open(rl.path)
	if err != nil {
		return nil
	}
	defer f.Close()
	buf := make([]byte, st.Size()-rl.off)
	n, _ := f.ReadAt(buf, rl.off)
	txt := string(buf[:n])
	// only complete blocks are consumed
	var out []string
	const bar = "=================="
	consumed := 0
	for {
		i := strings.Index(txt[consumed:], bar+"\nWARNING: DATA RACE")
		if i < 0 {
			break
		}
		start := consumed + i
		j := strings.Index(txt[start+len(bar):], bar)
		if j < 0 {
			break
		}
		end := start + len(bar) + j + len(bar)
		out = append(out, txt[start:end])
		consumed = end
	}
	rl.off += int64(consumed)
	return out
}

// stripGenerics removes (nested) type-argument lists from a function name.
func stripGenerics(fn string) string {
	var b strings.Builder
	depth := 0
	for _, r := range fn {
		switch {
		case r == '[':
			depth++
		case r == ']':
			if depth > 0 {
				depth--
			}
		case depth == 0:
			b.WriteRune(r)
		}
	}
	return b.String()
}

// report is one parsed DATA RACE block.
type report struct {
	Text   string   `json:"text"`
	Access []string `json:"access"` // the two access headers ("Read at ... by goroutine N")
	Inner  []string `json:"inner"`  // innermost library function of each access stack ("" if none)
	API    []string `json:"api"`    // outermost library function of each access stack
	Key    string   `json:"key"`
}

const libPrefix = "github.com/tychoish/fun"

func parseReport(block string) report {
	r := report{Text: block}
	// sections are separated by blank lines; the first two are the
	// accesses, the rest say where the goroutines were created.
	secs := strings.Split(block, "\n\n")
	for _, sec := range secs {
		lines := strings.Split(strings.Trim(sec, "\n"), "\n")
		hdr := ""
		var fns []string
		for _, ln := range lines {
			if strings.HasPrefix(ln, "====") || strings.HasPrefix(ln, "WARNING: DATA RACE") {
				continue
			}
			if hdr == "" && !strings.HasPrefix(ln, " ") {
				hdr = ln
				continue
			}
			if strings.HasPrefix(ln, "      ") {
				continue // file:line
			}
			if strings.HasPrefix(ln, "  ") {
				fn := strings.TrimSpace(ln)
				if i := strings.LastIndex(fn, "("); i > 0 {
					fn = fn[:i]
				}
				fns = append(fns, stripGenerics(fn))
			}
		}
		if hdr == "" || strings.HasPrefix(hdr, "Goroutine ") {
			continue
		}
		if !(strings.Contains(hdr, " at 0x") && strings.Contains(hdr, " by ")) {
			continue
		}
		inner, api := "", ""
		for _, fn := range fns { // innermost first
			if strings.HasPrefix(fn, libPrefix) {
				if inner == "" {
					inner = fn
				}
				api = fn
			}
		}
		r.Access = append(r.Access, hdr)
		r.Inner = append(r.Inner, strings.TrimPrefix(inner, libPrefix+"/"))
		r.API = append(r.API, strings.TrimPrefix(api, libPrefix+"/"))
	}
	k := append([]string{}, r.Inner...)
	sort.Strings(k)
	r.Key = "C13:race/" + strings.Join(k, "|")
	return r
}

func (r report) inLibrary() bool {
	for _, f := range r.Inner {
		if f != "" {
			return true
		}
	}
	return false
}

// ---------------------------------------------------------------- subjects

// op is one public call (or a short fixed sequence on a result the call
// hands out) against the shared instance; i is the iteration number, g the
// goroutine index.
type op struct {
	name string
	f    func(g, i int)
}

// subject builds a fresh shared instance and its operation table.
type subject struct {
	name string
	mk   func() (ops []op, cleanup func())
}

func sctx() (context.Context, context.CancelFunc) {
	return context.WithTimeout(context.Background(), 150*time.Microsecond)
}

func bg() context.Context { return context.Background() }

// Params is the generated schedule of one program.
type Params struct {
	Procs  int   `json:"gomaxprocs"`
	Iters  int   `json:"iterations"`
	Yields []int `json:"yields"`
}

// Thread is one goroutine of a generated program: the ops it calls in order.
type Thread struct {
	Ops   []int    `json:"ops,omitempty"`
	Names []string `json:"names,omitempty"` // the same by name; wins over Ops when a saved case is replayed
}

// Program is a generated client program against one subject.
type Program struct {
	Subject string   `json:"subject"`
	Threads []Thread `json:"threads"`
	Params  Params   `json:"params"`
}

type runResult struct {
	overlap bool
	stuck   bool
}

// runProgram executes the program once: every thread loops Params.Iters
// times over its op list.  The goroutines share only the subject.
func runProgram(s subject, p Program) runResult {
	if p.Params.Procs > 0 {
		old := runtime.GOMAXPROCS(p.Params.Procs)
		defer runtime.GOMAXPROCS(old)
	}
	ops, cleanup := s.mk()
	n := len(p.Threads)
	for g := range p.Threads {
		if th := &p.Threads[g]; len(th.Names) > 0 {
			th.Ops = th.Ops[:0:0]
			for _, nm := range th.Names {
				found := false
				for oi := range ops {
					if ops[oi].name == nm {
						th.Ops = append(th.Ops, oi)
						found = true
					}
				}
				if !found {
					panic(fmt.Sprintf("c13: subject %q has no operation %q", s.name, nm))
				}
			}
		}
	}
	t0 := make([]time.Time, n)
	t1 := make([]time.Time, n)
	start := make(chan struct{})
	var wg sync.WaitGroup
	for g := range p.Threads {
		wg.Add(1)
		go func(g int) {
			defer wg.Done()
			th := p.Threads[g]
			ny := len(p.Params.Yields)
			<-start
			b := time.Now()
			k := 0
			for i := 0; i < p.Params.Iters; i++ {
				for _, oi := range th.Ops {
					if ny > 0 {
						vkit.Yield(p.Params.Yields[(g*7+k)%ny])
					}
					k++
					ops[oi].f(g, i)
				}
			}
			e := time.Now()
			t0[g], t1[g] = b, e // distinct elements; read after wg.Wait
		}(g)
	}
	done := make(chan struct{})
	go func() { wg.Wait(); close(done) }()
	close(start)
	res := runResult{}
	select {
	case <-done:
	case <-time.After(60 * time.Second):
		res.stuck = true
		return res
	}
	if cleanup != nil {
		cleanup()
	}
	for a := 0; a < n; a++ {
		for b := a + 1; b < n; b++ {
			if t0[a].Before(t1[b]) && t0[b].Before(t1[a]) {
				res.overlap = true
			}
		}
	}
	return res
}

// ---------------------------------------------------------------- findings

type finding struct {
	Key     string   `json:"key"`
	Program Program  `json:"program"`
	Reports []report `json:"reports"`
}

type collector struct {
	mu          sync.Mutex
	byKey       map[string]*finding
	harness     []report
	rl          *raceLog
	stuck       []Program
	lastProgram Program
}

func newCollector() *collector { return &collector{byKey: map[string]*finding{}, rl: openRaceLog()} }

// after is called when a program has ended; it attributes fresh reports.
func (c *collector) after(p Program) (n int) {
	c.lastProgram = p
	for _, blk := range c.rl.fresh() {
		r := parseReport(blk)
		if !r.inLibrary() {
			c.harness = append(c.harness, r)
			continue
		}
		n++
		f := c.byKey[r.Key]
		if f == nil {
			f = &finding{Key: r.Key, Program: p}
			c.byKey[r.Key] = f
		}
		if len(f.Reports) < 3 {
			f.Reports = append(f.Reports, r)
		}
	}
	return n
}

// settle reports what was collected: one failing case per key that is not
// an open known finding.
func (c *collector) settle(t *testing.T, test string) {
	// reports written by library goroutines that outlived their program
	time.Sleep(20 * time.Millisecond)
	c.after(c.lastProgram)
	keys := make([]string, 0, len(c.byKey))
	for k := range c.byKey {
		keys = append(keys, k)
	}
	sort.Strings(keys)
	for _, p := range c.stuck {
		fmt.Printf("VKIT-INCONCLUSIVE test=%s program did not end within 60s: %+v\n", test, p)
	}
	for _, r := range c.harness {
		fmt.Printf("VKIT-HARNESS-RACE test=%s a race report without a library frame (harness bug):\n%s\n", test, r.Text)
	}
	first := true
	for _, k := range keys {
		f := c.byKey[k]
		if vkit.Known(k) {
			vkit.Excluded(test, k)
			continue
		}
		r := f.Reports[0]
		reason := fmt.Sprintf("data race between %s and %s (entered through %s / %s); %s / %s",
			r.Inner[0], last(r.Inner), r.API[0], last(r.API), r.Access[0], last(r.Access))
		name := test
		if !first {
			name = test + "." + fmt.Sprintf("%016x", vkit.Hash(k))
		}
		first = false
		saveNamed(name, test, k, reason, f)
		t.Errorf("[%s] %s\n%s", k, reason, r.Text)
	}
	if len(c.harness) > 0 || len(c.stuck) > 0 {
		// not a verdict about the library
		vkit.Flush()
		os.Exit(4)
	}
}

func last(s []string) string {
	if len(s) == 0 {
		return ""
	}
	return s[len(s)-1]
}

// saveNamed writes <name>.case.json in the driver's format; the "test"
// field always names the Test function so that a replay runs it.
func saveNamed(name, test, key, reason string, c any) {
	p := vkit.SaveCase(name, key, reason, c)
	if name != test {
		// SaveCase stored test=name; rewrite with the real test name
		b, err := os.ReadFile(p)
		if err == nil {
			b = []byte(strings.Replace(string(b), fmt.Sprintf("%q", name), fmt.Sprintf("%q", test), 1))
			_ = os.WriteFile(p, b, 0o644)
		}
	}
}
