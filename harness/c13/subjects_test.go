package c13

import (
	"context"
	"encoding/json"
	"errors"
	"fmt"
	"os"
	"runtime"
	"strings"
	"sync"
	"sync/atomic"
	"time"

	"github.com/tychoish/fun"
	"github.com/tychoish/fun/adt"
	"github.com/tychoish/fun/dt"
	"github.com/tychoish/fun/dt/cmp"
	"github.com/tychoish/fun/erc"
	"github.com/tychoish/fun/ers"
	"github.com/tychoish/fun/ft"
	"github.com/tychoish/fun/pubsub"

	"verif/harness/vkit"
)

// closeAt is the iteration at which a "Close"/"Stop" op really closes:
// before it the other goroutine meets the open container, after it the
// closed one.
const closeAt = 5

func val(g, i int) int { return g*100000 + i }

func drain[T any](it *fun.Iterator[T]) {
	ctx, cancel := context.WithTimeout(bg(), 300*time.Microsecond)
	defer cancel()
	for it.Next(ctx) {
		_ = it.Value()
	}
	_ = it.Close()
}

// closeDuringFirstRead closes a fresh iterator while another goroutine is
// in (or entering) its first ReadOne - the usual way of stopping a consumer
// that is blocked on an empty container.
func closeDuringFirstRead[T any](it *fun.Iterator[T]) {
	c, cf := sctx()
	defer cf()
	done := make(chan struct{})
	go func() { defer close(done); _, _ = it.ReadOne(c) }()
	runtime.Gosched()
	_ = it.Close()
	<-done
}

func consume[T any](it *fun.Iterator[T]) {
	for it.Next(bg()) {
		_ = it.Value()
	}
	_ = it.Close()
}

// settle waits until the goroutines the library started for this instance
// are gone, so that a report they produce is attributed to this program.
// Goroutines leaked by earlier programs (base) are not waited for; what is
// left is printed once per creation site (leaks are C04's business).
func settle(base int) {
	var left []string
	if vkit.Eventually(2*time.Second, func() bool { left = vkit.FunGoroutines(); return len(left) <= base }) {
		return
	}
	for _, g := range left {
		i := strings.LastIndex(g, "created by ")
		site := g[i:]
		if j := strings.IndexByte(site, '\n'); j > 0 {
			site = site[:j]
		}
		if _, dup := leakSites.LoadOrStore(site, true); !dup {
			fmt.Printf("c13: library goroutine still running after the program ended:\n%s\n\n", g)
		}
	}
}

var leakSites sync.Map

func distributorOps(prefix string, d pubsub.Distributor[int]) []op {
	in := d.WithInputFilter(func(v int) bool { return v%2 == 0 })
	outf := d.WithOutputFilter(func(v int) bool { return v%3 != 0 })
	dit := d.Iterator()
	return []op{
		{prefix + ".Send", func(g, i int) { c, cf := sctx(); defer cf(); _ = d.Send(c, val(g, i)) }},
		{prefix + ".Receive", func(g, i int) { c, cf := sctx(); defer cf(); _, _ = d.Receive(c) }},
		{prefix + ".Len", func(g, i int) { _ = d.Len() }},
		{prefix + ".Processor", func(g, i int) { c, cf := sctx(); defer cf(); _ = d.Processor()(c, val(g, i)) }},
		{prefix + ".Producer", func(g, i int) { c, cf := sctx(); defer cf(); _, _ = d.Producer()(c) }},
		{prefix + ".Iterator.ReadOne(shared)", func(g, i int) { c, cf := sctx(); defer cf(); _, _ = dit.ReadOne(c) }},
		{prefix + ".Iterator.Next(own)", func(g, i int) { drain(d.Iterator()) }},
		{prefix + ".Iterator.Close(during first ReadOne)", func(g, i int) { closeDuringFirstRead(d.Iterator()) }},
		{prefix + ".InputFilter.Send", func(g, i int) { c, cf := sctx(); defer cf(); _ = in.Send(c, val(g, i)) }},
		{prefix + ".OutputFilter.Receive", func(g, i int) { c, cf := sctx(); defer cf(); _, _ = outf.Receive(c) }},
	}
}

func queueSubject(name string, mkq func() *pubsub.Queue[int]) subject {
	return subject{name: name, mk: func() ([]op, func()) {
		q := mkq()
		for i := 0; i < 3; i++ {
			_ = q.Add(-i - 1)
		}
		it := q.Iterator()
		prod := q.Producer()
		ops := []op{
			{"Add", func(g, i int) { _ = q.Add(val(g, i)) }},
			{"BlockingAdd", func(g, i int) { c, cf := sctx(); defer cf(); _ = q.BlockingAdd(c, val(g, i)) }},
			{"Remove", func(g, i int) { _, _ = q.Remove() }},
			{"Wait", func(g, i int) { c, cf := sctx(); defer cf(); _, _ = q.Wait(c) }},
			{"Len", func(g, i int) { _ = q.Len() }},
			{"Iterator.ReadOne(shared)", func(g, i int) { c, cf := sctx(); defer cf(); _, _ = it.ReadOne(c) }},
			{"Iterator.Next(own)", func(g, i int) { drain(q.Iterator()) }},
			{"Iterator.Close(during first ReadOne)", func(g, i int) { closeDuringFirstRead(q.Iterator()) }},
			{"Producer(shared)", func(g, i int) { c, cf := sctx(); defer cf(); _, _ = prod(c) }},
			{"Producer(own)", func(g, i int) { c, cf := sctx(); defer cf(); p := q.Producer(); _, _ = p(c); _, _ = p(c) }},
			{"Close", func(g, i int) {
				if i == closeAt {
					_ = q.Close()
				}
			}},
		}
		ops = append(ops, distributorOps("Distributor", q.Distributor())...)
		return ops, func() { _ = q.Close() }
	}}
}

func dequeSubject(name string, mkd func() *pubsub.Deque[int]) subject {
	return subject{name: name, mk: func() ([]op, func()) {
		q := mkd()
		for i := 0; i < 3; i++ {
			_ = q.PushBack(-i - 1)
		}
		it, rit := q.Iterator(), q.IteratorReverse()
		p, pr, pb, prb := q.Producer(), q.ProducerReverse(), q.ProducerBlocking(), q.ProducerReverseBlocking()
		ops := []op{
			{"PushFront", func(g, i int) { _ = q.PushFront(val(g, i)) }},
			{"PushBack", func(g, i int) { _ = q.PushBack(val(g, i)) }},
			{"ForcePushFront", func(g, i int) { _ = q.ForcePushFront(val(g, i)) }},
			{"ForcePushBack", func(g, i int) { _ = q.ForcePushBack(val(g, i)) }},
			{"PopFront", func(g, i int) { _, _ = q.PopFront() }},
			{"PopBack", func(g, i int) { _, _ = q.PopBack() }},
			{"WaitFront", func(g, i int) { c, cf := sctx(); defer cf(); _, _ = q.WaitFront(c) }},
			{"WaitBack", func(g, i int) { c, cf := sctx(); defer cf(); _, _ = q.WaitBack(c) }},
			{"WaitPushFront", func(g, i int) { c, cf := sctx(); defer cf(); _ = q.WaitPushFront(c, val(g, i)) }},
			{"WaitPushBack", func(g, i int) { c, cf := sctx(); defer cf(); _ = q.WaitPushBack(c, val(g, i)) }},
			{"Len", func(g, i int) { _ = q.Len() }},
			{"Iterator.ReadOne(shared)", func(g, i int) { c, cf := sctx(); defer cf(); _, _ = it.ReadOne(c) }},
			{"IteratorReverse.ReadOne(shared)", func(g, i int) { c, cf := sctx(); defer cf(); _, _ = rit.ReadOne(c) }},
			{"Iterator.Next(own)", func(g, i int) { drain(q.Iterator()) }},
			{"IteratorReverse.Next(own)", func(g, i int) { drain(q.IteratorReverse()) }},
			{"ProducerBlocking.Iterator.Close(during first ReadOne)", func(g, i int) { closeDuringFirstRead(q.ProducerBlocking().Iterator()) }},
			{"Producer(shared)", func(g, i int) { c, cf := sctx(); defer cf(); _, _ = p(c) }},
			{"ProducerReverse(shared)", func(g, i int) { c, cf := sctx(); defer cf(); _, _ = pr(c) }},
			{"ProducerBlocking(shared)", func(g, i int) { c, cf := sctx(); defer cf(); _, _ = pb(c) }},
			{"ProducerReverseBlocking(shared)", func(g, i int) { c, cf := sctx(); defer cf(); _, _ = prb(c) }},
			{"ProducerBlocking(own)", func(g, i int) { c, cf := sctx(); defer cf(); x := q.ProducerBlocking(); _, _ = x(c); _, _ = x(c) }},
			{"Close", func(g, i int) {
				if i == closeAt {
					_ = q.Close()
				}
			}},
		}
		ops = append(ops, distributorOps("Distributor", q.Distributor())...)
		ops = append(ops, distributorOps("DistributorNonBlocking", q.DistributorNonBlocking())[:3]...)
		return ops, func() { _ = q.Close() }
	}}
}

func brokerSubject(name string, mkb func(ctx context.Context) *pubsub.Broker[int]) subject {
	return subject{name: name, mk: func() ([]op, func()) {
		base := len(vkit.FunGoroutines())
		ctx, cancel := context.WithCancel(bg())
		b := mkb(ctx)
		sub := b.Subscribe(ctx)
		drained := make(chan struct{})
		go func() {
			defer close(drained)
			for {
				select {
				case <-sub:
				case <-ctx.Done():
					return
				}
			}
		}()
		ops := []op{
			{"Publish", func(g, i int) { c, cf := sctx(); defer cf(); b.Publish(c, val(g, i)) }},
			{"Subscribe+Unsubscribe", func(g, i int) {
				c, cf := context.WithTimeout(ctx, time.Millisecond)
				defer cf()
				if ch := b.Subscribe(c); ch != nil {
					select {
					case <-ch:
					case <-c.Done():
					default:
					}
					b.Unsubscribe(c, ch)
				}
			}},
			{"Stats", func(g, i int) { c, cf := sctx(); defer cf(); _ = b.Stats(c) }},
			{"Wait", func(g, i int) { c, cf := sctx(); defer cf(); b.Wait(c) }},
			{"Populate", func(g, i int) {
				c, cf := context.WithTimeout(ctx, time.Millisecond)
				defer cf()
				_ = b.Populate(fun.VariadicIterator(val(g, i), val(g, i)+1))(c)
			}},
			{"Stop", func(g, i int) {
				if i == closeAt {
					b.Stop()
				}
			}},
		}
		return ops, func() {
			b.Stop()
			cancel()
			<-drained
			c, cf := context.WithTimeout(bg(), 5*time.Second)
			b.Wait(c)
			cf()
			settle(base)
		}
	}}
}

func setSubject(name string, ordered bool) subject {
	return subject{name: name, mk: func() ([]op, func()) {
		s, o, twin := &dt.Set[int]{}, &dt.Set[int]{}, &dt.Set[int]{}
		s.Synchronize()
		o.Synchronize()
		twin.Synchronize()
		if ordered {
			s.Order()
			o.Order()
			twin.Order()
		}
		for i := 0; i < 5; i++ {
			s.Add(i)
			twin.Add(i + i/4*5) // the same number of members, the last one differs: Equal stops early
		}
		o.Add(1)
		o.Add(9)
		return []op{
			{"Add", func(g, i int) { s.Add(i % 8) }},
			{"AddCheck", func(g, i int) { _ = s.AddCheck((i + g) % 8) }},
			{"Delete", func(g, i int) { s.Delete(i % 8) }},
			{"DeleteCheck", func(g, i int) { _ = s.DeleteCheck((i + g) % 8) }},
			{"Check", func(g, i int) { _ = s.Check(i % 8) }},
			{"Len", func(g, i int) { _ = s.Len() }},
			{"Iterator(consume)", func(g, i int) { consume(s.Iterator()) }},
			{"Producer(consume)", func(g, i int) {
				p := s.Producer()
				for k := 0; k < 12; k++ {
					if _, err := p(bg()); err != nil {
						break
					}
				}
			}},
			{"Equal(other)", func(g, i int) { _ = s.Equal(o) }},
			{"Equal(near twin)", func(g, i int) { _ = s.Equal(twin) }},
			{"Delete+Add", func(g, i int) { s.Delete(i % 5); s.Add(i % 5) }},
			{"Extend(other)", func(g, i int) { s.Extend(o) }},
			{"Populate", func(g, i int) { s.Populate(fun.VariadicIterator(i%8, (i+3)%8)) }},
			{"MarshalJSON", func(g, i int) { _, _ = json.Marshal(s) }},
			{"UnmarshalJSON", func(g, i int) { _ = json.Unmarshal([]byte("[1,2,9]"), s) }},
			{"SortQuick", func(g, i int) { s.SortQuick(cmp.LessThanNative[int]) }},
			{"SortMerge", func(g, i int) { s.SortMerge(cmp.LessThanNative[int]) }},
			{"other.Add", func(g, i int) { o.Add(i % 8) }},
			{"other.Delete", func(g, i int) { o.Delete(i % 8) }},
		}, nil
	}}
}

func collectorSubject() subject {
	return subject{name: "erc.Collector", mk: func() ([]op, func()) {
		ec := &erc.Collector{}
		ec.Add(errors.New("seed"))
		e1, e2 := errors.New("x"), ers.Error("y")
		return []op{
			{"Add", func(g, i int) { ec.Add(e1) }},
			{"Add(nil)", func(g, i int) { ec.Add(nil) }},
			{"Add(joined)", func(g, i int) { ec.Add(ers.Join(e1, e2)) }},
			{"Handler", func(g, i int) { ec.Handler()(e2) }},
			{"Resolve", func(g, i int) { _ = ec.Resolve() }},
			{"Future", func(g, i int) { _ = ec.Future()() }},
			{"Len", func(g, i int) { _ = ec.Len() }},
			{"HasErrors+Ok", func(g, i int) { _ = ec.HasErrors(); _ = ec.Ok() }},
			{"Iterator(consume)", func(g, i int) { consume(ec.Iterator()) }},
		}, nil
	}}
}

func waitGroupSubject() subject {
	return subject{name: "fun.WaitGroup", mk: func() ([]op, func()) {
		wg := &fun.WaitGroup{}
		noop := func(context.Context) {}
		return []op{
			{"Add+Done", func(g, i int) { wg.Add(1); wg.Done() }},
			{"Add(2)+Add(-2)", func(g, i int) { wg.Add(2); wg.Add(-2) }},
			{"Inc+Done", func(g, i int) { wg.Inc(); wg.Done() }},
			{"Num", func(g, i int) { _ = wg.Num() }},
			{"IsDone", func(g, i int) { _ = wg.IsDone() }},
			{"Wait", func(g, i int) { c, cf := sctx(); defer cf(); wg.Wait(c) }},
			{"Operation", func(g, i int) { c, cf := sctx(); defer cf(); wg.Operation()(c) }},
			{"Worker", func(g, i int) { c, cf := sctx(); defer cf(); _ = wg.Worker()(c) }},
			{"Launch", func(g, i int) { wg.Launch(bg(), noop) }},
			{"DoTimes", func(g, i int) { wg.DoTimes(bg(), 2, noop) }},
		}, func() { c, cf := context.WithTimeout(bg(), 5*time.Second); wg.Wait(c); cf() }
	}}
}

func mapSubject() subject {
	return subject{name: "adt.Map", mk: func() ([]op, func()) {
		base := len(vkit.FunGoroutines())
		m := &adt.Map[int, int]{}
		for i := 0; i < 3; i++ {
			m.Store(i, i)
		}
		return []op{
			{"Store", func(g, i int) { m.Store(i%5, i) }},
			{"Set", func(g, i int) { m.Set(dt.MakePair(i%5, i)) }},
			{"Delete", func(g, i int) { m.Delete(i % 5) }},
			{"Ensure", func(g, i int) { m.Ensure(i % 5) }},
			{"EnsureDefault", func(g, i int) { _ = m.EnsureDefault(i%5, func() int { return 7 }) }},
			{"EnsureStore", func(g, i int) { _ = m.EnsureStore(i%5, i) }},
			{"EnsureSet", func(g, i int) { _ = m.EnsureSet(dt.MakePair(i%5, i)) }},
			{"Get", func(g, i int) { _ = m.Get(i % 5) }},
			{"Load", func(g, i int) { _, _ = m.Load(i % 5) }},
			{"Check", func(g, i int) { _ = m.Check(i % 5) }},
			{"Swap", func(g, i int) { _, _ = m.Swap(i%5, i) }},
			{"Len", func(g, i int) { _ = m.Len() }},
			{"Range", func(g, i int) { m.Range(func(int, int) bool { return true }) }},
			{"Iterator(consume)", func(g, i int) { consume(m.Iterator()) }},
			{"Keys(consume)", func(g, i int) { consume(m.Keys()) }},
			{"Values(consume)", func(g, i int) { consume(m.Values()) }},
			{"MarshalJSON", func(g, i int) { _, _ = m.MarshalJSON() }},
			{"UnmarshalJSON", func(g, i int) { _ = m.UnmarshalJSON([]byte(`{"1":2,"4":4}`)) }},
		}, func() { settle(base) }
	}}
}

func atomicsSubject() subject {
	return subject{name: "adt.Atomic+Synchronized+Once", mk: func() ([]op, func()) {
		a := adt.NewAtomic(1)
		var za adt.Atomic[int] // zero value
		si := adt.NewSynchronized(1)
		sm := adt.NewSynchronized(map[int]int{})
		o := &adt.Once[int]{}
		no := adt.NewOnce(func() int { return 5 })
		mn := adt.Mnemonize(func() int { return 9 })
		var plain int // protected by sm's lock through Using
		return []op{
			{"Atomic.Set", func(g, i int) { a.Set(i) }},
			{"Atomic.Store", func(g, i int) { a.Store(i); za.Store(i) }},
			{"Atomic.Get", func(g, i int) { _ = a.Get(); _ = za.Get() }},
			{"Atomic.Load", func(g, i int) { _ = a.Load() }},
			{"Atomic.Swap", func(g, i int) { _ = a.Swap(i); _ = za.Swap(i) }},
			{"Atomic.CompareAndSwap", func(g, i int) { _ = adt.CompareAndSwap[int](a, i, i+1) }},
			{"Atomic.Reset", func(g, i int) { _ = adt.Reset[int](a) }},
			{"Atomic.SafeSet", func(g, i int) { adt.SafeSet[int](a, i) }},
			{"Synchronized[int].Set", func(g, i int) { si.Set(i) }},
			{"Synchronized[int].Store", func(g, i int) { si.Store(i) }},
			{"Synchronized[int].Get", func(g, i int) { _ = si.Get() }},
			{"Synchronized[int].Load", func(g, i int) { _ = si.Load() }},
			{"Synchronized[int].Swap", func(g, i int) { _ = si.Swap(i) }},
			{"Synchronized[int].String", func(g, i int) { _ = si.String() }},
			{"Synchronized[int].With", func(g, i int) { si.With(func(int) {}) }},
			{"Synchronized[int].CompareAndSwap", func(g, i int) { _ = adt.CompareAndSwap[int](si, i, i+1) }},
			{"Synchronized[int].Reset", func(g, i int) { _ = adt.Reset[int](si) }},
			{"Synchronized[map].With(mutate)", func(g, i int) { sm.With(func(m map[int]int) { m[i%4] = i }) }},
			{"Synchronized[map].With(read)", func(g, i int) { sm.With(func(m map[int]int) { _ = m[i%4] }) }},
			{"Synchronized[map].String", func(g, i int) { _ = sm.String() }},
			{"Synchronized[map].Using", func(g, i int) { sm.Using(func() { plain++ }) }},
			{"Once.Do", func(g, i int) { o.Do(func() int { return i }) }},
			{"Once.Resolve", func(g, i int) { _ = o.Resolve(); _ = no.Resolve() }},
			{"Once.Set", func(g, i int) { o.Set(func() int { return 7 }) }},
			{"Once.Called+Defined", func(g, i int) { _ = o.Called(); _ = o.Defined(); _ = no.Called() }},
			{"Mnemonize", func(g, i int) { _ = mn() }},
		}, nil
	}}
}

func poolSubject() subject {
	return subject{name: "adt.Pool", mk: func() ([]op, func()) {
		p := &adt.Pool[*int]{} // open: constructor and hook may still be set
		p.SetConstructor(func() *int { v := -1; return &v })
		f := &adt.Pool[*int]{} // finalized in setup
		f.SetConstructor(func() *int { v := 0; return &v })
		f.SetCleanupHook(func(in *int) *int { return in })
		f.FinalizeSetup()
		bp := adt.MakeBytesBufferPool(16)
		return []op{
			{"SetConstructor", func(g, i int) { p.SetConstructor(func() *int { v := i; return &v }) }},
			{"SetCleanupHook", func(g, i int) { p.SetCleanupHook(func(in *int) *int { return in }) }},
			{"Get+Put", func(g, i int) { v := p.Get(); p.Put(v) }},
			{"Get", func(g, i int) { _ = p.Get() }},
			{"Put(new)", func(g, i int) { v := i; p.Put(&v) }},
			{"Make", func(g, i int) { _ = p.Make() }},
			{"finalized.Get+Put", func(g, i int) { v := f.Get(); f.Put(v) }},
			{"finalized.Make", func(g, i int) { _ = f.Make() }},
			{"finalized.FinalizeSetup", func(g, i int) { f.FinalizeSetup() }},
			{"BytesBufferPool.Get+Put", func(g, i int) { b := bp.Get(); b.WriteByte(1); bp.Put(b) }},
		}, nil
	}}
}

// wrapperSubject drives the Lock / WithLock / Once / Limit wrappers of the
// function types.  The wrapped functions of the Lock family mutate plain
// variables: the wrapper is what makes that safe.  Under Once the wrapped
// function writes a plain variable that callers read after the call
// (sync.Once semantics).  Under Limit the wrapped functions use atomics
// only (Operation.Limit is documented to run the operation concurrently);
// what is exercised there is the wrapper's own cached result.
func wrapperSubject() subject {
	return subject{name: "wrappers", mk: func() ([]op, func()) {
		var shared int // protected by mtx via WithLock on every function kind
		mtx := &sync.Mutex{}
		wl := fun.Worker(func(context.Context) error { shared++; return nil }).WithLock(mtx)
		ol := fun.Operation(func(context.Context) { shared++ }).WithLock(mtx)
		pl := fun.Producer[int](func(context.Context) (int, error) { shared++; return shared, nil }).WithLock(mtx)
		prl := fun.Processor[int](func(_ context.Context, v int) error { shared += v; return nil }).WithLock(mtx)
		hl := fun.Handler[int](func(v int) { shared += v }).WithLock(mtx)
		fl := fun.Future[int](func() int { shared++; return shared }).WithLock(mtx)

		var a, b, c, d, e, f int // one per Lock() wrapper (each has its own mutex)
		wL := fun.Worker(func(context.Context) error { a++; return nil }).Lock()
		oL := fun.Operation(func(context.Context) { b++ }).Lock()
		pL := fun.Producer[int](func(context.Context) (int, error) { c++; return c, nil }).Lock()
		prL := fun.Processor[int](func(_ context.Context, v int) error { d += v; return nil }).Lock()
		hL := fun.Handler[int](func(v int) { e += v }).Lock()
		fL := fun.Future[int](func() int { f++; return f }).Lock()

		var acc int
		g1, s1 := adt.AccessorsWithLock(fun.Future[int](func() int { return acc }), fun.Handler[int](func(v int) { acc = v }))
		var racc int
		g2, s2 := adt.AccessorsWithReadLock(fun.Future[int](func() int { return racc }), fun.Handler[int](func(v int) { racc = v }))

		var o1, o2, o3, o4, o5, o6, o7, o8 int // written once, read by every caller after its call returned
		wo := fun.Worker(func(context.Context) error { o1 = 1; return errors.New("once") }).Once()
		oo := fun.Operation(func(context.Context) { o2 = 1 }).Once()
		po := fun.Producer[int](func(context.Context) (int, error) { o3 = 1; return 3, nil }).Once()
		pro := fun.Processor[int](func(_ context.Context, v int) error { o4 = v + 1; return nil }).Once()
		ho := fun.Handler[int](func(v int) { o5 = v + 1 }).Once()
		fo := fun.Future[int](func() int { o6 = 1; return 6 }).Once()
		fto := ft.Once(func() { o7 = 1 })
		ftd := ft.OnceDo(func() int { o8 = 1; return 8 })

		var n1, n2, n3, n4, n5 atomic.Int64
		wlim := fun.Worker(func(context.Context) error { return fmt.Errorf("run %d", n1.Add(1)) }).Limit(3)
		olim := fun.Operation(func(context.Context) { n2.Add(1) }).Limit(3)
		plim := fun.Producer[int](func(context.Context) (int, error) { return int(n3.Add(1)), nil }).Limit(3)
		prlim := fun.Processor[int](func(_ context.Context, v int) error { return fmt.Errorf("run %d", n4.Add(1)) }).Limit(3)
		flim := fun.Future[int](func() int { return int(n5.Add(1)) }).Limit(3)

		return []op{
			{"Worker.WithLock", func(g, i int) { _ = wl(bg()) }},
			{"Operation.WithLock", func(g, i int) { ol(bg()) }},
			{"Producer.WithLock", func(g, i int) { _, _ = pl(bg()) }},
			{"Processor.WithLock", func(g, i int) { _ = prl(bg(), i) }},
			{"Handler.WithLock", func(g, i int) { hl(i) }},
			{"Future.WithLock", func(g, i int) { _ = fl() }},
			{"Worker.Lock", func(g, i int) { _ = wL(bg()) }},
			{"Operation.Lock", func(g, i int) { oL(bg()) }},
			{"Producer.Lock", func(g, i int) { _, _ = pL(bg()) }},
			{"Processor.Lock", func(g, i int) { _ = prL(bg(), i) }},
			{"Handler.Lock", func(g, i int) { hL(i) }},
			{"Future.Lock", func(g, i int) { _ = fL() }},
			{"AccessorsWithLock.get", func(g, i int) { _ = g1() }},
			{"AccessorsWithLock.set", func(g, i int) { s1(i) }},
			{"AccessorsWithReadLock.get", func(g, i int) { _ = g2() }},
			{"AccessorsWithReadLock.set", func(g, i int) { s2(i) }},
			{"Worker.Once", func(g, i int) { _ = wo(bg()); _ = o1 }},
			{"Operation.Once", func(g, i int) { oo(bg()); _ = o2 }},
			{"Producer.Once", func(g, i int) { _, _ = po(bg()); _ = o3 }},
			{"Processor.Once", func(g, i int) { _ = pro(bg(), i); _ = o4 }},
			{"Handler.Once", func(g, i int) { ho(i); _ = o5 }},
			{"Future.Once", func(g, i int) { _ = fo(); _ = o6 }},
			{"ft.Once", func(g, i int) { fto(); _ = o7 }},
			{"ft.OnceDo", func(g, i int) { _ = ftd(); _ = o8 }},
			{"Worker.Limit", func(g, i int) { _ = wlim(bg()) }},
			{"Operation.Limit", func(g, i int) { olim(bg()) }},
			{"Producer.Limit", func(g, i int) { _, _ = plim(bg()) }},
			{"Processor.Limit", func(g, i int) { _ = prlim(bg(), i) }},
			{"Future.Limit", func(g, i int) { _ = flim() }},
		}, nil
	}}
}

// subjects returns the table; C13_SUBJECT (a substring) restricts it while
// developing.
func subjects() []subject {
	all := allSubjects()
	f := os.Getenv("C13_SUBJECT")
	if f == "" {
		return all
	}
	var out []subject
	for _, s := range all {
		if strings.Contains(s.name, f) {
			out = append(out, s)
		}
	}
	return out
}

func allSubjects() []subject {
	return []subject{
		queueSubject("Queue(hard 8, soft 4)", func() *pubsub.Queue[int] {
			q, err := pubsub.NewQueue[int](pubsub.QueueOptions{HardLimit: 8, SoftQuota: 4, BurstCredit: 1})
			if err != nil {
				panic(err)
			}
			return q
		}),
		queueSubject("Queue(unlimited)", pubsub.NewUnlimitedQueue[int]),
		dequeSubject("Deque(capacity 6)", func() *pubsub.Deque[int] {
			d, err := pubsub.NewDeque[int](pubsub.DequeOptions{Capacity: 6})
			if err != nil {
				panic(err)
			}
			return d
		}),
		dequeSubject("Deque(unlimited)", pubsub.NewUnlimitedDeque[int]),
		dequeSubject("Deque(queue options)", func() *pubsub.Deque[int] {
			d, err := pubsub.NewDeque[int](pubsub.DequeOptions{QueueOptions: &pubsub.QueueOptions{HardLimit: 8, SoftQuota: 4, BurstCredit: 1}})
			if err != nil {
				panic(err)
			}
			return d
		}),
		brokerSubject("Broker(channel, parallel dispatch)", func(ctx context.Context) *pubsub.Broker[int] {
			return pubsub.NewBroker[int](ctx, pubsub.BrokerOptions{ParallelDispatch: true})
		}),
		brokerSubject("Broker(channel)", func(ctx context.Context) *pubsub.Broker[int] {
			return pubsub.NewBroker[int](ctx, pubsub.BrokerOptions{})
		}),
		brokerSubject("Broker(queue, 2 workers)", func(ctx context.Context) *pubsub.Broker[int] {
			return pubsub.NewQueueBroker[int](ctx, pubsub.NewUnlimitedQueue[int](), pubsub.BrokerOptions{WorkerPoolSize: 2})
		}),
		brokerSubject("Broker(deque, buffer 1)", func(ctx context.Context) *pubsub.Broker[int] {
			return pubsub.NewDequeBroker[int](ctx, pubsub.NewUnlimitedDeque[int](), pubsub.BrokerOptions{BufferSize: 1})
		}),
		brokerSubject("Broker(LIFO 4, buffer 1)", func(ctx context.Context) *pubsub.Broker[int] {
			return pubsub.NewLIFOBroker[int](ctx, pubsub.BrokerOptions{BufferSize: 1, ParallelDispatch: true, WorkerPoolSize: 2}, 4)
		}),
		setSubject("Set(synchronized)", false),
		setSubject("Set(synchronized, ordered)", true),
		collectorSubject(),
		waitGroupSubject(),
		mapSubject(),
		atomicsSubject(),
		poolSubject(),
		wrapperSubject(),
	}
}
