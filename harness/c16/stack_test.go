package c16

import (
	"context"
	"encoding/json"
	"fmt"
	"testing"
	"time"

	"github.com/tychoish/fun"
	"github.com/tychoish/fun/dt"
	"pgregory.net/rapid"

	"verif/harness/vkit"
)

const tStack = "TestStackModel"

type shandle struct {
	it    *dt.Item[int]
	val   int
	stack int // -1 detached
}

type sworld struct {
	t       vkit.TB
	stacks  [2]*dt.Stack[int]
	seq     [2][]*shandle // top first
	hs      []*shandle
	log     []Op
	cur     Op
	nstruc  int
	nhand   int
	cls     map[string]bool
	failing bool
	sub     string // refines the scenario key of the current step
}

func newSWorld(t vkit.TB) *sworld {
	return &sworld{t: t, stacks: [2]*dt.Stack[int]{{}, {}}, cls: map[string]bool{}}
}

func (w *sworld) fail(f string, a ...any) {
	w.t.Helper()
	w.failing = true
	vkit.Fail(w.t, tStack, "C16:stack/"+w.cur.Op+w.sub, w.log, "after %v: %s", w.cur, fmt.Sprintf(f, a...))
}

func (w *sworld) vals(si int) []int {
	out := make([]int, 0, len(w.seq[si]))
	for _, h := range w.seq[si] {
		out = append(out, h.val)
	}
	return out
}

func (w *sworld) check() {
	ctx := context.Background()
	for si, s := range w.stacks {
		want := w.vals(si)
		var walk []int
		var items []*dt.Item[int]
		n := 0
		for it := s.Head(); it.Ok(); it = it.Next() {
			walk = append(walk, it.Value())
			items = append(items, it)
			if n++; n > len(want)+8 {
				w.fail("Head/Next walk of stack %d does not end (prefix %v, model %v)", si, walk, want)
			}
		}
		if !same(walk, want) {
			w.fail("stack %d: Head/Next walk %v, model (top first) %v", si, walk, want)
		}
		for i, it := range items {
			if it != w.seq[si][i].it {
				w.fail("stack %d: position %d holds a different item than the model", si, i)
			}
			if !it.In(s) {
				w.fail("stack %d: listed item %d does not report In(stack)", si, i)
			}
		}
		if s.Len() != len(want) {
			w.fail("stack %d: Len()=%d, model %d", si, s.Len(), len(want))
		}
		got, err := s.Iterator().Slice(ctx)
		if err != nil || !same(got, want) {
			w.fail("stack %d: Iterator()=%v (%v), model %v", si, got, err, want)
		}
	}
	for i, h := range w.hs {
		for si, s := range w.stacks {
			if got, want := h.it.In(s), h.stack == si; got != want {
				w.fail("item handle %d (value %d): In(stack %d)=%v, model %v", i, h.val, si, got, want)
			}
		}
		if !h.it.Ok() || h.it.Value() != h.val {
			w.fail("item handle %d: Ok=%v Value=%d, model value %d", i, h.it.Ok(), h.it.Value(), h.val)
		}
	}
}

func (w *sworld) unlink(h *shandle) {
	s := w.seq[h.stack]
	for i, x := range s {
		if x == h {
			w.seq[h.stack] = append(append([]*shandle{}, s[:i]...), s[i+1:]...)
			h.stack = -1
			return
		}
	}
	panic("model: item not in its stack")
}

func (w *sworld) h(i int) *shandle {
	if i < 0 || i >= len(w.hs) {
		return nil
	}
	return w.hs[i]
}

// apply runs one op under a watchdog: every step is sequential library
// code, so a step that does not return (or allocates without bound) does
// not terminate.
func (w *sworld) apply(o Op) {
	vkit.Watch(tStack, "C16:stack/"+o.Op+"/terminates", 30*time.Second, func() any { return append(append([]Op{}, w.log...), o) }, func() { w.applyStep(o) })
}

func (w *sworld) applyStep(o Op) {
	w.cur, w.sub = o, ""
	w.log = append(w.log, o)
	defer func() {
		if r := recover(); r != nil {
			if w.failing {
				panic(r)
			}
			w.fail("panic: %v", r)
		}
	}()
	si := o.L & 1
	s := w.stacks[si]
	a := w.h(o.A)
	structural := true
	switch o.Op {
	case "Push":
		s.Push(o.V)
		h := &shandle{it: s.Head(), val: o.V, stack: si}
		w.hs = append(w.hs, h)
		w.seq[si] = append([]*shandle{h}, w.seq[si]...)
	case "Append":
		s.Append(o.V, o.V+1)
		h2 := &shandle{it: s.Head(), val: o.V + 1, stack: si}
		h1 := &shandle{it: s.Head().Next(), val: o.V, stack: si}
		w.hs = append(w.hs, h1, h2)
		w.seq[si] = append([]*shandle{h2, h1}, w.seq[si]...)
	case "Pop":
		it := s.Pop()
		if len(w.seq[si]) == 0 {
			if it == nil || it.Ok() {
				w.fail("Pop on the empty stack %d returned nil or an Ok item", si)
			}
			w.cls["pop-empty"] = true
			break
		}
		h := w.seq[si][0]
		if it != h.it {
			w.fail("Pop of stack %d returned the wrong item (value %v), model %d", si, it.Value(), h.val)
		}
		w.unlink(h)
	case "NewItem":
		w.hs = append(w.hs, &shandle{it: dt.NewItem(o.V), val: o.V, stack: -1})
		structural = false
	case "HeadAppend":
		// the way Push itself inserts: Append on the head item
		if a == nil {
			return
		}
		w.nhand++
		head := s.Head()
		ret := head.Append(a.it)
		if a.stack >= 0 {
			w.cls["rejected-append"] = true
			if ret != head {
				w.fail("Append of an item that belongs to a stack did not return the receiver")
			}
			break
		}
		if ret != a.it {
			w.fail("successful Append did not return the new item")
		}
		a.stack = si
		w.seq[si] = append([]*shandle{a}, w.seq[si]...)
	case "ItemRemove":
		if a == nil {
			return
		}
		w.nhand++
		want := a.stack >= 0
		if want && w.seq[a.stack][0] == a {
			w.cls["remove-head"] = true
			w.sub = "-head"
		} else if want {
			w.cls["remove-inner"] = true
		} else {
			w.cls["rejected-remove"] = true
		}
		if got := a.it.Remove(); got != want {
			w.fail("Item.Remove()=%v, model %v", got, want)
		}
		if want {
			w.unlink(a)
		}
	case "Set":
		if a == nil {
			return
		}
		w.nhand++
		if !a.it.Set(o.V) {
			w.fail("Set on a value item returned false")
		}
		a.val = o.V
		structural = false
	case "ItemJSON":
		// decoding JSON into an item handle is Set with the decoded value
		if a == nil {
			return
		}
		w.nhand++
		if err := json.Unmarshal([]byte(fmt.Sprint(o.V)), a.it); err != nil {
			w.fail("json.Unmarshal into an item: %v", err)
		}
		a.val = o.V
		structural = false
	case "RootJSON":
		// ... and the sentinel below the last item accepts nothing
		if len(w.seq[si]) != 0 {
			return
		}
		root := s.Head()
		_ = json.Unmarshal([]byte(fmt.Sprint(o.V)), root)
		if root.Ok() || s.Head().Ok() {
			w.fail("after decoding JSON into the root item of the empty stack it reports Ok")
		}
		structural = false
	case "SetRoot":
		// the sentinel below the last item cannot be set
		if len(w.seq[si]) != 0 {
			return
		}
		if root := s.Head(); root.Ok() || root.Set(o.V) {
			w.fail("the root item of the empty stack is Ok or accepted Set")
		}
		structural = false
	case "JSON":
		b, err := json.Marshal(s)
		if err != nil {
			w.fail("MarshalJSON: %v", err)
		}
		want := w.vals(si)
		wb, _ := json.Marshal(want)
		if string(b) != string(wb) {
			w.fail("MarshalJSON=%s, encoding/json of the model (top first) gives %s", b, wb)
		}
		ns := &dt.Stack[int]{}
		if err := json.Unmarshal(b, ns); err != nil {
			w.fail("UnmarshalJSON(%s): %v", b, err)
		}
		got, err := ns.Iterator().Slice(context.Background())
		if err != nil || !same(got, want) || ns.Len() != len(want) {
			w.fail("JSON round trip gives %v (Len %d, %v), model %v", got, ns.Len(), err, want)
		}
		structural = false
	case "PopIterator":
		want := w.vals(si)
		got, err := s.PopIterator().Slice(context.Background())
		if err != nil || !same(got, want) {
			w.fail("PopIterator yields %v (%v), model %v", got, err, want)
		}
		for _, h := range w.seq[si] {
			h.stack = -1
		}
		w.seq[si] = nil
	case "FromIterator":
		src := w.vals(si)
		ns, err := dt.NewStackFromIterator(context.Background(), fun.SliceIterator(src))
		if err != nil || ns.Len() != len(src) {
			w.fail("NewStackFromIterator(%v): Len %d (%v)", src, ns.Len(), err)
		}
		got, _ := ns.Iterator().Slice(context.Background())
		for i := range got {
			if got[i] != src[len(src)-1-i] {
				w.fail("NewStackFromIterator(%v) iterates %v, want the reverse", src, got)
			}
		}
		structural = false
	default:
		panic("unknown op " + o.Op)
	}
	if structural {
		w.nstruc++
	}
	w.check()
}

func (w *sworld) finish() {
	classes := []string{}
	for c := range w.cls {
		classes = append(classes, c)
	}
	ops := map[string]bool{}
	for _, o := range w.log {
		ops["op:"+o.Op] = true
	}
	for o := range ops {
		classes = append(classes, o)
	}
	log := append([]Op{}, w.log...)
	vkit.Case(tStack, vkit.Hash(log), w.nstruc >= 3 && w.nhand >= 1, classes, func() any { return log })
}

func TestStackModel(t *testing.T) {
	var rc []Op
	if ok, err := vkit.ReplayCase(tStack, &rc); err != nil {
		t.Fatal(err)
	} else if ok {
		w := newSWorld(t)
		for _, o := range rc {
			w.apply(o)
		}
		return
	}
	rapid.Check(t, propStackModel)
}

// propStackModel is the generated property; FuzzStackModel drives the same function with
// the native coverage-guided fuzzer (rapid.MakeFuzz decodes the bytes).
func propStackModel(t *rapid.T) {
	w := newSWorld(t)
	next := 0
	val := func() int {
		if rapid.Bool().Draw(t, "dup") {
			return rapid.IntRange(0, 3).Draw(t, "v")
		}
		next++
		return next + 10
	}
	stack := func() int { return rapid.IntRange(0, 1).Draw(t, "stack") }
	hnd := func() int {
		if len(w.hs) == 0 {
			return -1
		}
		return rapid.IntRange(0, len(w.hs)-1).Draw(t, "item")
	}
	t.Repeat(map[string]func(*rapid.T){
		"Push":       func(*rapid.T) { w.apply(Op{Op: "Push", L: stack(), V: val()}) },
		"Append":     func(*rapid.T) { next += 2; w.apply(Op{Op: "Append", L: stack(), V: next + 10}) },
		"Pop":        func(*rapid.T) { w.apply(Op{Op: "Pop", L: stack()}) },
		"NewItem":    func(*rapid.T) { w.apply(Op{Op: "NewItem", V: val()}) },
		"HeadAppend": func(*rapid.T) { w.apply(Op{Op: "HeadAppend", L: stack(), A: hnd()}) },
		"ItemRemove": func(t *rapid.T) {
			o := Op{Op: "ItemRemove", A: hnd()}
			if a := w.h(o.A); a != nil && a.stack >= 0 && w.seq[a.stack][0] == a && vkit.Known("C16:stack/ItemRemove-head") {
				vkit.Excluded(tStack, "C16:stack/ItemRemove-head")
				t.Skip("open known finding: removing the head item")
			}
			w.apply(o)
		},
		"Set":          func(*rapid.T) { w.apply(Op{Op: "Set", A: hnd(), V: val()}) },
		"SetRoot":      func(*rapid.T) { w.apply(Op{Op: "SetRoot", L: stack(), V: val()}) },
		"ItemJSON":     func(*rapid.T) { w.apply(Op{Op: "ItemJSON", A: hnd(), V: val()}) },
		"RootJSON":     func(*rapid.T) { w.apply(Op{Op: "RootJSON", L: stack(), V: val()}) },
		"JSON":         func(*rapid.T) { w.apply(Op{Op: "JSON", L: stack()}) },
		"PopIterator":  func(*rapid.T) { w.apply(Op{Op: "PopIterator", L: stack()}) },
		"FromIterator": func(*rapid.T) { w.apply(Op{Op: "FromIterator", L: stack()}) },
	})
	w.finish()
}

func FuzzStackModel(f *testing.F) { f.Fuzz(rapid.MakeFuzz(propStackModel)) }
