// Package c16 decides property C16: dt.List and dt.Stack stay well-formed
// and match a sequence model under any sequence of public operations.
package c16

import (
	"context"
	"encoding/json"
	"fmt"
	"sort"
	"testing"
	"time"

	"github.com/tychoish/fun"
	"github.com/tychoish/fun/dt"
	"github.com/tychoish/fun/dt/cmp"
	"pgregory.net/rapid"

	"verif/harness/vkit"
)

func TestMain(m *testing.M) { vkit.Main(m) }

const tList = "TestListModel"

// Op is one step of a list script.  A and B index the handle pool
// (-1 = nil element), L selects the list, V is a value.
type Op struct {
	Op string `json:"op"`
	L  int    `json:"l,omitempty"`
	A  int    `json:"a,omitempty"`
	B  int    `json:"b,omitempty"`
	V  int    `json:"v,omitempty"`
}

func (o Op) String() string { return fmt.Sprintf("%s(l=%d a=%d b=%d v=%d)", o.Op, o.L, o.A, o.B, o.V) }

type handle struct {
	e    *dt.Element[int]
	val  int
	list int  // -1 detached, else the index of the owning list
	ok   bool // Ok(): false after Drop and for the root
	root bool
}

// liveIter is an iterator kept alive while the list changes.
type liveIter struct {
	it      *fun.Iterator[int]
	list    int
	reverse bool
	cur     *handle // the element it yielded last (nil: not advanced yet)
	dead    bool    // has reported the end
	unsure  bool    // rests on an element that left the list
}

func (it *liveIter) name() string {
	if it.reverse {
		return "Reverse() iterator"
	}
	return "Iterator()"
}

type world struct {
	t         vkit.TB
	lists     [2]*dt.List[int]
	seq       [2][]*handle
	hs        []*handle
	log       []Op
	cur       Op
	nstruc    int
	nhand     int
	emptyPops int
	cls       map[string]bool
	its       []*liveIter

	failing bool
}

func newWorld(t vkit.TB) *world {
	return &world{t: t, lists: [2]*dt.List[int]{{}, {}}, cls: map[string]bool{}}
}

func (w *world) fail(f string, a ...any) {
	w.t.Helper()
	w.failing = true
	vkit.Fail(w.t, tList, "C16:list/"+w.cur.Op, w.log, "after %v: %s", w.cur, fmt.Sprintf(f, a...))
}

func (w *world) vals(li int) []int {
	out := make([]int, 0, len(w.seq[li]))
	for _, h := range w.seq[li] {
		out = append(out, h.val)
	}
	return out
}

func same(a, b []int) bool {
	if len(a) != len(b) {
		return false
	}
	for i := range a {
		if a[i] != b[i] {
			return false
		}
	}
	return true
}

// invariant: every view of every list equals the model.
func (w *world) check() {
	ctx := context.Background()
	for li, l := range w.lists {
		want := w.vals(li)
		bound := len(want) + 8
		var fw, bw []int
		var fwe []*dt.Element[int]
		n := 0
		for e := l.Front(); e.Ok(); e = e.Next() {
			fw = append(fw, e.Value())
			fwe = append(fwe, e)
			if n++; n > bound {
				w.fail("forward walk of list %d does not end (prefix %v, model %v)", li, fw, want)
			}
		}
		n = 0
		for e := l.Back(); e.Ok(); e = e.Previous() {
			bw = append([]int{e.Value()}, bw...)
			if n++; n > bound {
				w.fail("backward walk of list %d does not end (suffix %v, model %v)", li, bw, want)
			}
		}
		if !same(fw, want) {
			w.fail("list %d: forward walk %v, model %v", li, fw, want)
		}
		if !same(bw, want) {
			w.fail("list %d: reversed backward walk %v, model %v", li, bw, want)
		}
		for i, e := range fwe {
			if e != w.seq[li][i].e {
				w.fail("list %d: position %d holds a different element than the model", li, i)
			}
			if !e.In(l) {
				w.fail("list %d: listed element %d (value %d) does not report In(list)", li, i, e.Value())
			}
		}
		if l.Len() != len(want) {
			w.fail("list %d: Len()=%d, model %d", li, l.Len(), len(want))
		}
		if sl := l.Slice(); !same([]int(sl), want) {
			w.fail("list %d: Slice()=%v, model %v", li, sl, want)
		}
		it, err := l.Iterator().Slice(ctx)
		if err != nil || !same(it, want) {
			w.fail("list %d: Iterator()=%v (%v), model %v", li, it, err, want)
		}
		rv, err := l.Reverse().Slice(ctx)
		if err != nil || len(rv) != len(want) {
			w.fail("list %d: Reverse()=%v (%v), model reversed %v", li, rv, err, want)
		}
		for i := range rv {
			if rv[i] != want[len(want)-1-i] {
				w.fail("list %d: Reverse()=%v, model reversed %v", li, rv, want)
			}
		}
	}
	for i, h := range w.hs {
		for li, l := range w.lists {
			if got, want := h.e.In(l), h.list == li; got != want {
				w.fail("handle %d (value %d): In(list %d)=%v, model %v", i, h.val, li, got, want)
			}
		}
		if h.e.Ok() != h.ok {
			w.fail("handle %d: Ok()=%v, model %v", i, h.e.Ok(), h.ok)
		}
		if !h.root && h.e.Value() != h.val {
			w.fail("handle %d: Value()=%d, model %d", i, h.e.Value(), h.val)
		}
	}
}

func (w *world) idx(h *handle) int {
	for i, x := range w.seq[h.list] {
		if x == h {
			return i
		}
	}
	panic("model: handle not in its list")
}

func (w *world) unlink(h *handle) {
	i := w.idx(h)
	s := w.seq[h.list]
	w.seq[h.list] = append(append([]*handle{}, s[:i]...), s[i+1:]...)
	h.list = -1
}

func (w *world) h(i int) *handle {
	if i < 0 || i >= len(w.hs) {
		return nil
	}
	return w.hs[i]
}

func elemOf(h *handle) *dt.Element[int] {
	if h == nil {
		return nil
	}
	return h.e
}

func (w *world) newHandle(e *dt.Element[int], v, list int) *handle {
	h := &handle{e: e, val: v, list: list, ok: true}
	w.hs = append(w.hs, h)
	return h
}

func sortHandles(s []*handle) {
	sort.SliceStable(s, func(i, j int) bool { return s[i].val < s[j].val })
}

// swapValid says whether the model lets a.Swap(b) succeed.
func swapValid(a, b *handle) bool {
	return a != nil && b != nil && a != b && a.list >= 0 && a.list == b.list
}

// apply runs one op on the real lists and on the model.
// apply runs one op under a watchdog: every step is sequential library
// code, so a step that does not return (or allocates without bound) does
// not terminate.
func (w *world) apply(o Op) {
	vkit.Watch(tList, "C16:list/"+o.Op+"/terminates", 30*time.Second, func() any { return append(append([]Op{}, w.log...), o) }, func() { w.applyStep(o) })
}

func (w *world) applyStep(o Op) {
	w.cur = o
	w.log = append(w.log, o)
	defer func() {
		// a panic out of the library is a failure of the step that
		// raised it (w.fail itself unwinds by panicking under rapid).
		if r := recover(); r != nil {
			if w.failing {
				panic(r)
			}
			w.fail("panic: %v", r)
		}
	}()
	l := w.lists[o.L&1]
	li := o.L & 1
	a, b := w.h(o.A), w.h(o.B)
	structural := true
	switch o.Op {
	case "PushBack":
		l.PushBack(o.V)
		w.seq[li] = append(w.seq[li], w.newHandle(l.Back(), o.V, li))
	case "PushFront":
		l.PushFront(o.V)
		w.seq[li] = append([]*handle{w.newHandle(l.Front(), o.V, li)}, w.seq[li]...)
	case "Append":
		l.Append(o.V, o.V+1)
		e2 := l.Back()
		h1 := w.newHandle(e2.Previous(), o.V, li)
		h2 := w.newHandle(e2, o.V+1, li)
		w.seq[li] = append(w.seq[li], h1, h2)
	case "PopFront", "PopBack":
		var e *dt.Element[int]
		if o.Op == "PopFront" {
			e = l.PopFront()
		} else {
			e = l.PopBack()
		}
		if len(w.seq[li]) == 0 {
			if e.Ok() {
				w.fail("pop from the empty list %d returned an Ok element (%d)", li, e.Value())
			}
			w.cls["pop-empty"] = true
			// what an empty pop hands out is a fresh detached element: it
			// joins the handle pool (Set makes it valid, then it can be
			// appended), and it is nobody else's element
			for _, h := range w.hs {
				if h.e == e {
					w.fail("pop from the empty list %d returned an element that was handed out before (value %v, Ok %v)", li, e.Value(), e.Ok())
				}
			}
			if w.emptyPops < 3 {
				w.emptyPops++
				w.hs = append(w.hs, &handle{e: e, list: -1, ok: false})
			}
			break
		}
		h := w.seq[li][0]
		if o.Op == "PopBack" {
			h = w.seq[li][len(w.seq[li])-1]
		}
		if e != h.e {
			w.fail("%s of list %d returned the wrong element (value %v, Ok %v), model value %d", o.Op, li, e.Value(), e.Ok(), h.val)
		}
		w.unlink(h)
	case "NewElement":
		w.newHandle(dt.NewElement(o.V), o.V, -1)
		structural = false
	case "RootHandle":
		// the sentinel is reachable through Front() of an empty list
		if len(w.seq[li]) != 0 {
			return
		}
		for _, h := range w.hs {
			if h.root && h.list == li {
				return
			}
		}
		w.hs = append(w.hs, &handle{e: l.Front(), list: li, root: true})
		structural = false
	case "ElemAppend":
		if a == nil {
			return
		}
		w.nhand++
		ret := a.e.Append(elemOf(b))
		valid := a.list >= 0 && b != nil && b.ok && b.list == -1 && !b.root
		if !valid {
			w.cls["rejected-append"] = true
			if b != nil && b.list >= 0 {
				w.cls["rejected-append-of-attached"] = true
			}
			if ret != a.e {
				w.fail("Append of an ineligible element (nil=%v attached=%v) did not return the receiver", b == nil, b != nil && b.list >= 0)
			}
			break
		}
		if ret != b.e {
			w.fail("successful Append did not return the new element")
		}
		pos := 0
		if !a.root {
			pos = w.idx(a) + 1
		}
		s := append([]*handle{}, w.seq[a.list][:pos]...)
		s = append(s, b)
		w.seq[a.list] = append(s, w.seq[a.list][pos:]...)
		b.list = a.list
	case "Remove", "Drop":
		if a == nil {
			return
		}
		w.nhand++
		want := a.list >= 0 && !a.root
		if o.Op == "Remove" {
			if got := a.e.Remove(); got != want {
				w.fail("Remove()=%v, model %v (attached=%v root=%v)", got, want, a.list >= 0, a.root)
			}
		} else {
			a.e.Drop()
		}
		if want {
			w.unlink(a)
			if o.Op == "Drop" {
				a.ok, a.val = false, 0
			}
		} else {
			w.cls["rejected-remove"] = true
		}
	case "Set":
		w.nhand++
		want := a != nil && !a.root
		if got := elemOf(a).Set(o.V); got != want {
			w.fail("Set()=%v, model %v", got, want)
		}
		if want {
			a.val, a.ok = o.V, true
		}
		structural = false
	case "ElemJSON", "ElemJSONNull":
		// decoding JSON into an element handle is Set with the decoded
		// value (null: the zero value); the root accepts nothing
		if a == nil {
			return
		}
		w.nhand++
		in, v := []byte(fmt.Sprint(o.V)), o.V
		if o.Op == "ElemJSONNull" {
			in, v = []byte("null"), 0
		}
		err := json.Unmarshal(in, a.e)
		if !a.root {
			if err != nil {
				w.fail("json.Unmarshal(%s) into an element: %v", in, err)
			}
			a.val, a.ok = v, true
		} else {
			w.cls["json-into-root"] = true
		}
		structural = false
	case "Swap":
		w.nhand++
		want := swapValid(a, b)
		if a == nil && b == nil {
			return
		}
		got := elemOf(a).Swap(elemOf(b))
		if got != want {
			w.fail("Swap()=%v, model %v", got, want)
		}
		if !want {
			w.cls["rejected-swap"] = true
			break
		}
		w.cls["swap"] = true
		// circular sequence with the root token at position 0
		circ := append([]*handle{nil}, w.seq[a.list]...)
		pos := func(h *handle) int {
			if h.root {
				return 0
			}
			return w.idx(h) + 1
		}
		i, j := pos(a), pos(b)
		circ[i], circ[j] = circ[j], circ[i]
		r := 0
		for k, h := range circ {
			if h == nil || h.root {
				r = k
			}
		}
		out := []*handle{}
		for k := 1; k < len(circ); k++ {
			out = append(out, circ[(r+k)%len(circ)])
		}
		w.seq[a.list] = out
	case "Extend":
		o2 := 1 - li
		l.Extend(w.lists[o2])
		for _, h := range w.seq[o2] {
			h.list = li
		}
		w.seq[li] = append(w.seq[li], w.seq[o2]...)
		w.seq[o2] = nil
	case "SortQuick", "SortMerge":
		vkit.Watch(tList, "C16:list/"+o.Op, time.Minute, func() any { return w.log }, func() {
			if o.Op == "SortQuick" {
				l.SortQuick(cmp.LessThanNative[int])
			} else {
				l.SortMerge(cmp.LessThanNative[int])
			}
		})
		if o.Op == "SortQuick" {
			sortHandles(w.seq[li])
		} else {
			// SortMerge is not promised to be stable: elements with
			// equal values may trade places; re-synchronise the model
			// with the elements the list now holds, after checking
			// that they are the same elements in a sorted order.
			got := []*dt.Element[int]{}
			n := 0
			for e := l.Front(); e.Ok(); e = e.Next() {
				got = append(got, e)
				if n++; n > len(w.seq[li])+8 {
					w.fail("walk after SortMerge does not end")
				}
			}
			if len(got) != len(w.seq[li]) {
				w.fail("SortMerge changed the number of reachable elements: %d, model %d", len(got), len(w.seq[li]))
			}
			byElem := map[*dt.Element[int]]*handle{}
			for _, h := range w.seq[li] {
				byElem[h.e] = h
			}
			out := []*handle{}
			for _, e := range got {
				h, ok := byElem[e]
				if !ok {
					w.fail("SortMerge produced an element that was not in the list (value %d)", e.Value())
				}
				delete(byElem, e)
				out = append(out, h)
			}
			for i := 1; i < len(out); i++ {
				if out[i].val < out[i-1].val {
					w.fail("SortMerge left %v", w.vals(li))
				}
			}
			w.seq[li] = out
		}
	case "JSON":
		b, err := json.Marshal(l)
		if err != nil {
			w.fail("MarshalJSON: %v", err)
		}
		want := w.vals(li)
		wb, _ := json.Marshal(want)
		if string(b) != string(wb) {
			w.fail("MarshalJSON=%s, encoding/json of the model gives %s", b, wb)
		}
		nl := &dt.List[int]{}
		if err := json.Unmarshal(b, nl); err != nil {
			w.fail("UnmarshalJSON(%s): %v", b, err)
		}
		if !same([]int(nl.Slice()), want) || nl.Len() != len(want) {
			w.fail("JSON round trip gives %v (Len %d), model %v", nl.Slice(), nl.Len(), want)
		}
		// the document MarshalJSON returns is the caller's: it does not
		// change when the other list (or this one again) is marshalled
		direct, err := l.MarshalJSON()
		if err != nil || string(direct) != string(wb) {
			w.fail("MarshalJSON()=%s (%v), encoding/json of the model gives %s", direct, err, wb)
		}
		_, _ = w.lists[1-li].MarshalJSON()
		other := &dt.List[int]{}
		other.PushBack(-99)
		other.PushBack(-98)
		other.PushBack(-97)
		_, _ = other.MarshalJSON()
		if string(direct) != string(wb) {
			w.fail("the document MarshalJSON() returned changed from %s to %s when other lists were marshalled afterwards", wb, direct)
		}
		structural = false
	case "IterOpen":
		// an iterator that is kept across the following operations:
		// "values added ahead of the iterator, will be visible"
		if len(w.its) < 4 {
			it := &liveIter{list: li, reverse: o.V%2 == 1}
			if it.reverse {
				it.it = l.Reverse()
			} else {
				it.it = l.Iterator()
			}
			w.its = append(w.its, it)
			w.cls["live-iterator"] = true
		}
		structural = false
	case "IterStep":
		structural = false
		if len(w.its) == 0 {
			return
		}
		it := w.its[o.A%len(w.its)]
		v, err := it.it.ReadOne(context.Background())
		switch {
		case it.dead:
			if err == nil {
				w.fail("a live iterator yielded %d after it had reported the end", v)
			}
		case it.unsure:
			it.dead = err != nil
		default:
			seq := w.seq[it.list]
			pos := -1
			if it.reverse {
				pos = len(seq)
			}
			if it.cur != nil {
				pos = -2
				for i, h := range seq {
					if h == it.cur {
						pos = i
					}
				}
			}
			if pos == -2 {
				// the element the iterator rests on has left the list:
				// what follows is not asserted
				it.unsure, it.dead = true, err != nil
				return
			}
			next := pos + 1
			if it.reverse {
				next = pos - 1
			}
			if next < 0 || next >= len(seq) {
				if err == nil {
					w.fail("a live %s yielded %d although nothing lies ahead of it (it rests on position %d of %v)", it.name(), v, pos, w.vals(it.list))
				}
				it.dead = true
				return
			}
			if err != nil || v != seq[next].val {
				w.fail("a live %s resting on position %d of %v yielded (%d, %v); the element ahead of it holds %d", it.name(), pos, w.vals(it.list), v, err, seq[next].val)
			}
			it.cur = seq[next]
			w.cls["live-iterator-step-after-mutation"] = true
		}
	case "UnmarshalInto":
		// UnmarshalJSON appends the decoded values to the receiver
		src := w.vals(1 - li)
		b, err := json.Marshal(w.lists[1-li])
		if err != nil {
			w.fail("MarshalJSON: %v", err)
		}
		if err := l.UnmarshalJSON(b); err != nil {
			w.fail("UnmarshalJSON(%s): %v", b, err)
		}
		e := l.Back()
		nh := make([]*handle, len(src))
		for i := len(src) - 1; i >= 0; i-- {
			if !e.Ok() {
				w.fail("UnmarshalJSON(%s) appended fewer than %d elements", b, len(src))
			}
			nh[i] = &handle{e: e, val: src[i], list: li, ok: true}
			e = e.Previous()
		}
		w.hs = append(w.hs, nh...)
		w.seq[li] = append(w.seq[li], nh...)
	case "Copy":
		c := l.Copy()
		want := w.vals(li)
		if c.Len() != len(want) || !same([]int(c.Slice()), want) {
			w.fail("Copy()=%v (Len %d), model %v", c.Slice(), c.Len(), want)
		}
		c.PushBack(-7) // the copy is independent
		structural = false
	case "PopIterator", "PopReverse":
		want := w.vals(li)
		var got []int
		var err error
		if o.Op == "PopIterator" {
			got, err = l.PopIterator().Slice(context.Background())
		} else {
			got, err = l.PopReverse().Slice(context.Background())
			for i, j := 0, len(want)-1; i < j; i, j = i+1, j-1 {
				want[i], want[j] = want[j], want[i]
			}
		}
		if err != nil || !same(got, want) {
			w.fail("%s yields %v (%v), model %v", o.Op, got, err, want)
		}
		for _, h := range w.seq[li] {
			h.list = -1
		}
		w.seq[li] = nil
	case "NilAccessors":
		// documented: "Returns false when the element is nil"
		var ne *dt.Element[int]
		if ne.Ok() || ne.In(l) {
			w.fail("a nil element reports Ok or In(list)")
		}
		structural = false
	case "FromIterator":
		src := w.vals(li)
		nl, err := dt.NewListFromIterator(context.Background(), fun.SliceIterator(src))
		if err != nil || !same([]int(nl.Slice()), src) || nl.Len() != len(src) {
			w.fail("NewListFromIterator(%v) gives %v (%v)", src, nl.Slice(), err)
		}
		structural = false
	default:
		panic("unknown op " + o.Op)
	}
	if structural {
		w.nstruc++
	}
	w.check()
}

func (w *world) finish() {
	classes := make([]string, 0, len(w.cls)+1)
	for c := range w.cls {
		classes = append(classes, c)
	}
	ops := map[string]bool{}
	for _, o := range w.log {
		ops["op:"+o.Op] = true
	}
	for o := range ops {
		classes = append(classes, o)
	}
	log := append([]Op{}, w.log...)
	vkit.Case(tList, vkit.Hash(log), w.nstruc >= 3 && w.nhand >= 1, classes, func() any { return log })
}

func TestListModel(t *testing.T) {
	var rc []Op
	if ok, err := vkit.ReplayCase(tList, &rc); err != nil {
		t.Fatal(err)
	} else if ok {
		w := newWorld(t)
		for _, o := range rc {
			w.apply(o)
		}
		return
	}
	rapid.Check(t, propListModel)
}

// propListModel is the generated property; FuzzListModel drives the same function with
// the native coverage-guided fuzzer (rapid.MakeFuzz decodes the bytes).
func propListModel(t *rapid.T) {
	w := newWorld(t)
	next := 0
	val := func() int { next++; return next }
	list := func() int { return rapid.IntRange(0, 1).Draw(t, "list") }
	// handle index: mostly a live handle, sometimes nil (-1)
	hnd := func(label string) int {
		if len(w.hs) == 0 || rapid.IntRange(0, 19).Draw(t, label+"-nil") == 0 {
			return -1
		}
		return rapid.IntRange(0, len(w.hs)-1).Draw(t, label)
	}
	smallVal := func() int {
		if rapid.Bool().Draw(t, "dup") {
			return rapid.IntRange(0, 3).Draw(t, "v")
		}
		return val() + 10
	}
	t.Repeat(map[string]func(*rapid.T){
		"PushBack":   func(*rapid.T) { w.apply(Op{Op: "PushBack", L: list(), V: smallVal()}) },
		"PushFront":  func(*rapid.T) { w.apply(Op{Op: "PushFront", L: list(), V: smallVal()}) },
		"Append":     func(*rapid.T) { w.apply(Op{Op: "Append", L: list(), V: val() + 10}) },
		"PopFront":   func(*rapid.T) { w.apply(Op{Op: "PopFront", L: list()}) },
		"PopBack":    func(*rapid.T) { w.apply(Op{Op: "PopBack", L: list()}) },
		"NewElement": func(*rapid.T) { w.apply(Op{Op: "NewElement", V: smallVal()}) },
		"RootHandle": func(*rapid.T) { w.apply(Op{Op: "RootHandle", L: list()}) },
		"ElemAppend": func(*rapid.T) { w.apply(Op{Op: "ElemAppend", A: hnd("a"), B: hnd("b")}) },
		"Remove":     func(*rapid.T) { w.apply(Op{Op: "Remove", A: hnd("a")}) },
		"Drop":       func(*rapid.T) { w.apply(Op{Op: "Drop", A: hnd("a")}) },
		"Set":        func(*rapid.T) { w.apply(Op{Op: "Set", A: hnd("a"), V: smallVal()}) },
		"IterOpen": func(t *rapid.T) {
			w.apply(Op{Op: "IterOpen", L: rapid.IntRange(0, 1).Draw(t, "list"), V: rapid.IntRange(0, 1).Draw(t, "reverse")})
		},
		"IterStep":  func(t *rapid.T) { w.apply(Op{Op: "IterStep", A: rapid.IntRange(0, 3).Draw(t, "iter")}) },
		"IterStep2": func(t *rapid.T) { w.apply(Op{Op: "IterStep", A: rapid.IntRange(0, 3).Draw(t, "iter")}) },
		"ElemJSON": func(t *rapid.T) {
			op := "ElemJSON"
			if rapid.IntRange(0, 3).Draw(t, "null") == 0 {
				op = "ElemJSONNull"
			}
			w.apply(Op{Op: op, A: hnd("a"), V: smallVal()})
		},
		"Swap": func(t *rapid.T) {
			o := Op{Op: "Swap", A: hnd("a"), B: hnd("b")}
			if swapValid(w.h(o.A), w.h(o.B)) && vkit.Known("C16:list/Swap") {
				vkit.Excluded(tList, "C16:list/Swap")
				t.Skip("open known finding: a successful Swap corrupts the list")
			}
			w.apply(o)
		},
		"Extend":        func(*rapid.T) { w.apply(Op{Op: "Extend", L: list()}) },
		"SortQuick":     func(*rapid.T) { w.apply(Op{Op: "SortQuick", L: list()}) },
		"SortMerge":     func(*rapid.T) { w.apply(Op{Op: "SortMerge", L: list()}) },
		"JSON":          func(*rapid.T) { w.apply(Op{Op: "JSON", L: list()}) },
		"UnmarshalInto": func(*rapid.T) { w.apply(Op{Op: "UnmarshalInto", L: list()}) },
		"Copy":          func(*rapid.T) { w.apply(Op{Op: "Copy", L: list()}) },
		"PopIterator":   func(*rapid.T) { w.apply(Op{Op: "PopIterator", L: list()}) },
		"PopReverse":    func(*rapid.T) { w.apply(Op{Op: "PopReverse", L: list()}) },
		"NilAccessors":  func(*rapid.T) { w.apply(Op{Op: "NilAccessors", L: list()}) },
		"FromIterator":  func(*rapid.T) { w.apply(Op{Op: "FromIterator", L: list()}) },
	})
	w.finish()
}

func FuzzListModel(f *testing.F) { f.Fuzz(rapid.MakeFuzz(propListModel)) }
