package c12

import (
	"errors"
	"fmt"
	"testing"
	"time"

	"github.com/tychoish/fun/erc"
	"github.com/tychoish/fun/ers"
	"pgregory.net/rapid"

	"verif/harness/vkit"
)

// Aggregation over the leaves the tree generator of agg_test.go cannot
// carry, because its oracle compares constituents with ==:
//
//   - errors whose dynamic type is not comparable (a struct with a slice
//     field, a slice type), matched by errors.Is through their own Is
//     method and by errors.As through their type.  The standard library
//     never compares such values; an aggregate that does panics.
//   - the empty stack in its typed form, a nil *ers.Stack (what
//     ers.AsStack(nil) returns and what an unset `var st *ers.Stack` is),
//     handed over as an operand: it holds no error and is ignored like a
//     nil.
//
// The oracle is the list of leaves: every non-nil leaf is found by
// errors.Is (through a fresh, equal target for the uncomparable kinds), no
// absent identity is found, errors.As finds a type exactly when a leaf has
// it, Unwind lists one entry per non-nil leaf (plus the annotations the
// combinators add), and the result is nil exactly when no leaf is non-nil.

const tOdd = "TestOddConstituents"

// tagged is an uncomparable value error: identity is the id, the slice is
// payload.
type tagged struct {
	id   int
	tags []string
}

func (e tagged) Error() string { return fmt.Sprint("tagged#", e.id, e.tags) }
func (e tagged) Is(t error) bool {
	o, ok := t.(tagged)
	return ok && o.id == e.id
}

// codes is an uncomparable slice error: identity is the first element.
type codes []int

func (e codes) Error() string { return fmt.Sprint("codes", []int(e)) }
func (e codes) Is(t error) bool {
	o, ok := t.(codes)
	return ok && len(o) > 0 && len(e) > 0 && o[0] == e[0]
}

// unwinder is an aggregate of somebody else's making that exposes its
// constituents through Unwind() []error only (the library's own interface,
// not the standard Unwrap): slots of work that succeeded stay nil, and a slot
// may hold an aggregate itself.
type unwinder struct{ slots []error }

func (u *unwinder) Error() string   { return fmt.Sprint("unwinder", u.slots) }
func (u *unwinder) Unwind() []error { return u.slots }

// brokenErr is a value-receiver multi-error; stored as a typed nil pointer
// in an error its Unwrap dereferences nil - a fault in the operand that
// strikes while the aggregate is being extended.
type brokenErr struct{ inner []error }

func (b brokenErr) Error() string   { return "broken" }
func (b brokenErr) Unwrap() []error { return b.inner }

type OddLeaf struct {
	K  string `json:"k"` // nil | nilstack | sent | ptr | tagged | codes | unwinder
	ID int    `json:"id"`
}

type OddCase struct {
	Left  []OddLeaf `json:"left"`
	Right []OddLeaf `json:"right"`
	Inner string    `json:"inner"` // join | push | collector | collector-fault (a faulting operand is offered in between, the caller recovers): how each group is combined
	Outer string    `json:"outer"` // join | push | collector | wrap | panic | left-only
}

type oddLeafVal struct {
	arg     error   // what is handed to the combinator
	target  error   // what errors.Is is asked for (nil: the leaf holds nothing)
	targets []error // unwinder: one per constituent
	kind    string
}

func (c *OddCase) leaf(l OddLeaf, ptrs map[int]error) oddLeafVal {
	switch l.K {
	case "nil":
		return oddLeafVal{kind: l.K}
	case "nilstack":
		var st *ers.Stack
		return oddLeafVal{arg: st, kind: l.K}
	case "sent":
		e := sentinels[l.ID%len(sentinels)]
		return oddLeafVal{arg: e, target: e, kind: l.K}
	case "ptr":
		e := errors.New(fmt.Sprint("odd-ptr#", l.ID))
		ptrs[l.ID] = e
		return oddLeafVal{arg: e, target: e, kind: l.K}
	case "unwinder":
		// slots: a pointer error, nil, a sentinel, [a nested Join of two
		// pointer errors], nil - which of them by the bits of ID
		a, b2 := errors.New(fmt.Sprint("uw-a#", l.ID)), sentinels[l.ID%len(sentinels)]
		u := &unwinder{}
		v := oddLeafVal{kind: l.K}
		if l.ID&1 == 1 {
			u.slots = append(u.slots, nil)
		}
		u.slots = append(u.slots, a)
		v.targets = append(v.targets, a)
		if l.ID&2 == 2 {
			u.slots = append(u.slots, nil)
		}
		u.slots = append(u.slots, b2)
		v.targets = append(v.targets, b2)
		if l.ID&4 == 4 {
			n1, n2 := errors.New(fmt.Sprint("uw-n1#", l.ID)), errors.New(fmt.Sprint("uw-n2#", l.ID))
			u.slots = append(u.slots, ers.Join(n1, n2), nil)
			v.targets = append(v.targets, n1, n2)
		}
		v.arg = u
		return v
	case "tagged":
		return oddLeafVal{arg: tagged{id: l.ID, tags: []string{"a", "b"}}, target: tagged{id: l.ID, tags: []string{"other"}}, kind: l.K}
	default:
		return oddLeafVal{arg: codes{l.ID, 1, 2}, target: codes{l.ID}, kind: l.K}
	}
}

func combine(how string, args []error) error {
	switch how {
	case "push":
		st := &ers.Stack{}
		for i, a := range args {
			if i%2 == 0 {
				st.Push(a)
			} else {
				st.Add(a)
			}
		}
		return st.Resolve()
	case "collector", "collector-fault":
		ec := &erc.Collector{}
		for i, a := range args {
			if how == "collector-fault" && i == len(args)/2 {
				// an operand whose Unwrap faults while the collector
				// is being extended; the caller recovers and goes on
				func() {
					defer func() { _ = recover() }()
					var bad *brokenErr
					ec.Add(bad)
				}()
			}
			ec.Add(a)
		}
		return ec.Resolve()
	}
	return ers.Join(args...)
}

func runOdd(t vkit.TB, c *OddCase) (nonNil, uncomparable, nilStacks int) {
	fail := func(key, f string, a ...any) { t.Helper(); vkit.Fail(t, tOdd, "C12:odd/"+key, *c, f, a...) }
	failing := false
	defer func() {
		if r := recover(); r != nil {
			if !failing {
				failing = true
				fail("panic", "aggregating or inspecting the errors panics: %v", r)
			}
			panic(r)
		}
	}()
	ptrs := map[int]error{}
	var leaves []oddLeafVal
	group := func(ls []OddLeaf) error {
		var args []error
		for _, l := range ls {
			v := c.leaf(l, ptrs)
			leaves = append(leaves, v)
			args = append(args, v.arg)
		}
		return combine(c.Inner, args)
	}
	left := group(c.Left)
	var res error
	notes := 0
	switch c.Outer {
	case "left-only":
		res = left
	case "wrap":
		res = ers.Wrap(left, "odd-note")
		if left != nil {
			notes = 1
		}
	case "panic":
		if left == nil {
			res = nil
		} else {
			res = ers.ParsePanic(left)
			notes = 1 // ErrRecoveredPanic
		}
	default:
		right := group(c.Right)
		res = combine(c.Outer, []error{left, right})
	}
	for _, l := range leaves {
		switch {
		case l.target != nil:
			nonNil++
			if l.kind == "tagged" || l.kind == "codes" {
				uncomparable++
			}
		case len(l.targets) > 0:
			nonNil += len(l.targets)
			uncomparable++ // counted with the unusual constituents
		case l.kind == "nilstack":
			nilStacks++
		}
	}
	if st, ok := res.(*ers.Stack); ok && st == nil {
		res = nil
	}
	if (res == nil) != (nonNil == 0) {
		failing = true
		fail("nil-iff-empty", "the result is %v although %d non-nil errors were supplied", res, nonNil)
	}
	if res == nil {
		return
	}
	for _, l := range leaves {
		for _, tg := range append([]error{l.target}, l.targets...) {
			if tg != nil && !errors.Is(res, tg) {
				failing = true
				fail("is", "errors.Is(result, %q) is false for a constituent (%s leaf)", tg, l.kind)
			}
		}
	}
	// absent identities
	for id := 90; id < 93; id++ {
		for _, tgt := range []error{tagged{id: id}, codes{id}, errors.New(fmt.Sprint("odd-ptr#", id))} {
			if errors.Is(res, tgt) {
				failing = true
				fail("is-unrelated", "errors.Is(result, %q) succeeds for an error that was never supplied", tgt)
			}
		}
	}
	var tg tagged
	var cd codes
	hasTagged, hasCodes := false, false
	for _, l := range leaves {
		hasTagged = hasTagged || l.kind == "tagged"
		hasCodes = hasCodes || l.kind == "codes"
	}
	if got := errors.As(res, &tg); got != hasTagged {
		failing = true
		fail("as", "errors.As(result, *tagged) = %v, a tagged leaf was supplied: %v", got, hasTagged)
	}
	if got := errors.As(res, &cd); got != hasCodes {
		failing = true
		fail("as", "errors.As(result, *codes) = %v, a codes leaf was supplied: %v", got, hasCodes)
	}
	if n := len(ers.Unwind(res)); n != nonNil+notes {
		failing = true
		fail("unwind", "Unwind lists %d errors, %d non-nil errors (+%d annotation) were supplied: %v", n, nonNil, notes, ers.Unwind(res))
	}
	if res.Error() == "" {
		failing = true
		fail("message", "the aggregate has an empty message")
	}
	return
}

func genOddLeaves(t *rapid.T, label string) []OddLeaf {
	n := rapid.IntRange(0, 4).Draw(t, label)
	out := make([]OddLeaf, n)
	for i := range out {
		out[i] = OddLeaf{
			K:  rapid.SampledFrom([]string{"nil", "nilstack", "sent", "ptr", "tagged", "tagged", "codes", "codes", "unwinder", "unwinder"}).Draw(t, "kind"),
			ID: rapid.IntRange(0, 7).Draw(t, "id"),
		}
	}
	return out
}

func TestOddConstituents(t *testing.T) {
	var rc OddCase
	if ok, err := vkit.ReplayCase(tOdd, &rc); err != nil {
		t.Fatal(err)
	} else if ok {
		runOdd(t, &rc)
		return
	}
	rapid.Check(t, func(t *rapid.T) {
		c := &OddCase{
			Left:  genOddLeaves(t, "left"),
			Inner: rapid.SampledFrom([]string{"join", "push", "collector", "collector-fault"}).Draw(t, "inner"),
			Outer: rapid.SampledFrom([]string{"join", "push", "collector", "wrap", "panic", "left-only"}).Draw(t, "outer"),
		}
		if c.Outer == "join" || c.Outer == "push" || c.Outer == "collector" {
			c.Right = genOddLeaves(t, "right")
		}
		var nonNil, unc, nst int
		vkit.Watch(tOdd, "C12:odd/terminates", 10*time.Second, func() any { return *c }, func() { nonNil, unc, nst = runOdd(t, c) })
		classes := []string{"inner:" + c.Inner, "outer:" + c.Outer, fmt.Sprintf("uncomparable:%v", unc > 0), fmt.Sprintf("typed-nil-stack:%v", nst > 0)}
		vkit.Case(tOdd, vkit.Hash(*c), (unc > 0 || nst > 0) && nonNil >= 2, classes, func() any { return *c })
	})
}
