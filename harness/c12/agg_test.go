// Package c12 decides property C12: error aggregation with ers.Join /
// ers.Stack / ers.Wrap / ParsePanic / erc.Collector is lossless and
// consistent with errors.Is / errors.As / ers.Unwind.
package c12

import (
	"context"
	"errors"
	"fmt"
	"sync"
	"testing"
	"time"

	"github.com/tychoish/fun/erc"
	"github.com/tychoish/fun/ers"
	"pgregory.net/rapid"

	"verif/harness/vkit"
)

func TestMain(m *testing.M) { vkit.Main(m) }

const tAgg = "TestAggregation"

// three distinct typed errors so that errors.As can be asked for a type
// that is present and for one that is absent
type typedA struct{ code int }
type typedB struct{ code int }
type typedC struct{ code int }

func (e *typedA) Error() string { return fmt.Sprint("typedA#", e.code) }
func (e *typedB) Error() string { return fmt.Sprint("typedB#", e.code) }
func (e *typedC) Error() string { return fmt.Sprint("typedC#", e.code) }

var sentinels = []error{ers.Error("sentinel-one"), ers.Error("sentinel-two"), ers.Error("sentinel-three")}

// Spec is the generated error tree.
type Spec struct {
	K string `json:"k"`
	I int    `json:"i,omitempty"`
	C []Spec `json:"c,omitempty"`
}

// val is what the independent oracle knows about the error a Spec builds.
type val struct {
	err error
	// self is reachable by errors.Is as long as the value is not
	// dissolved by a flattening parent.
	dissolves bool     // *ers.Stack or Unwrap() []error: flattened when pushed
	under     []error  // everything errors.Is must find below (and excluding) the value itself
	flatUnder []error  // what errors.Is still finds once a flattening parent dissolved the value (multi-wraps only; stack-like values: same as under)
	flat      []error  // what is pushed, in push order, when the value is pushed onto a Stack
	notes     []string // annotation texts that Wrap/Wrapf/ParsePanic add as extra constituents (same positions in flat hold nil)
	nested    bool     // a Stack was pushed onto a Stack somewhere below
	types     [3]bool
	depth     int
	hasNil    bool
}

func (v val) all() []error {
	if v.err == nil {
		return nil
	}
	return append([]error{v.err}, v.under...)
}

// kept is what remains reachable when a flattening parent takes v.
func (v val) kept() []error {
	if v.dissolves {
		if v.flatUnder != nil {
			return v.flatUnder
		}
		return v.under
	}
	return v.all()
}

type builder struct {
	ctr   int
	slots []slotRecord // the slices custom multi-errors expose, with a copy taken at construction
	inner []error      // inner stack nodes handed out by errors.Unwrap
}

// batchError is a typed multi-error of the kind produced by code that keeps
// one result slot per work item: it exposes its own slice through
// Unwrap() []error, and the slots of items that succeeded stay nil.
type batchError struct{ slots []error }

func (b *batchError) Error() string   { return fmt.Sprint("batch", len(b.slots), ": ", b.slots) }
func (b *batchError) Unwrap() []error { return b.slots }

type slotRecord struct {
	owner    error
	live     []error
	pristine []error
}

func reverse(in []error) []error {
	out := make([]error, len(in))
	for i, e := range in {
		out[len(in)-1-i] = e
	}
	return out
}

// pushAll models pushing the children, in order, onto one Stack.
func pushAll(cs []val) (flat, under []error, nested bool, types [3]bool, notes []string) {
	for _, c := range cs {
		if c.err == nil {
			continue
		}
		flat = append(flat, c.flat...)
		under = append(under, c.kept()...)
		nested = nested || c.nested
		if _, ok := c.err.(*ers.Stack); ok {
			nested = true
		}
		notes = append(notes, c.notes...)
		for i := range types {
			types[i] = types[i] || c.types[i]
		}
	}
	return
}

func (b *builder) build(s Spec) val {
	var cs []val
	depth := 0
	hasNil := false
	for _, c := range s.C {
		v := b.build(c)
		cs = append(cs, v)
		if v.depth > depth {
			depth = v.depth
		}
		hasNil = hasNil || v.hasNil || v.err == nil
	}
	leaf := func(e error, ty int) val {
		v := val{err: e, flat: []error{e}}
		if ty >= 0 {
			v.types[ty] = true
		}
		return v
	}
	// a *Stack (or nil / the single error) holding the pushed children
	stackOf := func(resolve bool, st *ers.Stack) val {
		flat, under, nested, types, notes := pushAll(cs)
		v := val{under: under, nested: nested, types: types, notes: notes, depth: depth + 1, hasNil: hasNil}
		switch {
		case len(flat) == 0:
			return val{depth: depth + 1, hasNil: true}
		case resolve && len(flat) == 1:
			// Resolve of a single error is that very error (which is
			// also listed in under: all() may hold duplicates)
			v.err = st.Resolve()
			v.flat = flat
			return v
		}
		if resolve {
			v.err = st.Resolve()
		} else {
			v.err = st
		}
		v.dissolves = true
		// pushing this Stack onto another pushes newest first
		v.flat = reverse(flat)
		// notes travel with flat; reversing keeps them a multiset
		return v
	}
	switch s.K {
	case "nil":
		return val{hasNil: true}
	case "sent":
		return leaf(sentinels[s.I%len(sentinels)], -1)
	case "ptr":
		b.ctr++
		return leaf(errors.New(fmt.Sprint("ptr#", b.ctr)), -1)
	case "typed":
		b.ctr++
		switch s.I % 3 {
		case 0:
			return leaf(&typedA{b.ctr}, 0)
		case 1:
			return leaf(&typedB{b.ctr}, 1)
		}
		return leaf(&typedC{b.ctr}, 2)
	case "wrap": // fmt.Errorf with one %w: kept intact by Push
		c := cs[0]
		if c.err == nil {
			return val{depth: depth, hasNil: true}
		}
		e := fmt.Errorf("wrap#%d: %w", s.I, c.err)
		return val{err: e, under: c.all(), flat: []error{e}, nested: c.nested, types: c.types, depth: depth + 1, hasNil: hasNil}
	case "wrap2": // fmt.Errorf with two %w: Unwrap() []error
		a, c := cs[0], cs[1]
		if a.err == nil || c.err == nil {
			return val{depth: depth, hasNil: true}
		}
		e := fmt.Errorf("%w and %w", a.err, c.err)
		v := val{err: e, dissolves: true, depth: depth + 1, hasNil: hasNil}
		v.under = append(append([]error{}, a.all()...), c.all()...)
		v.flatUnder = append(append([]error{}, a.kept()...), c.kept()...)
		// pushing e pushes its operands (recursively flattened)
		v.flat = append(append([]error{}, a.flat...), c.flat...)
		v.notes = append(append([]string{}, a.notes...), c.notes...)
		v.nested = a.nested || c.nested || isStack(a.err) || isStack(c.err)
		for i := range v.types {
			v.types[i] = a.types[i] || c.types[i]
		}
		return v
	case "ejoin": // errors.Join: Unwrap() []error, nils dropped
		var args []error
		for _, c := range cs {
			args = append(args, c.err)
		}
		e := errors.Join(args...)
		if e == nil {
			return val{depth: depth, hasNil: true}
		}
		v := val{err: e, dissolves: true, depth: depth + 1, hasNil: hasNil}
		for _, c := range cs {
			if c.err == nil {
				continue
			}
			v.under = append(v.under, c.all()...)
			v.flatUnder = append(v.flatUnder, c.kept()...)
			v.flat = append(v.flat, c.flat...)
			v.notes = append(v.notes, c.notes...)
			v.nested = v.nested || c.nested || isStack(c.err)
			for i := range v.types {
				v.types[i] = v.types[i] || c.types[i]
			}
		}
		return v
	case "batch": // a typed multi-error exposing its own slice, nil slots kept
		var args []error
		any := false
		for _, c := range cs {
			args = append(args, c.err)
			any = any || c.err != nil
		}
		if !any {
			return val{depth: depth, hasNil: true}
		}
		e := &batchError{slots: args}
		b.slots = append(b.slots, slotRecord{owner: e, live: args, pristine: append([]error{}, args...)})
		v := val{err: e, dissolves: true, depth: depth + 1, hasNil: hasNil}
		for _, c := range cs {
			if c.err == nil {
				continue
			}
			v.under = append(v.under, c.all()...)
			v.flatUnder = append(v.flatUnder, c.kept()...)
			v.flat = append(v.flat, c.flat...)
			v.notes = append(v.notes, c.notes...)
			v.nested = v.nested || c.nested || isStack(c.err)
			for i := range v.types {
				v.types[i] = v.types[i] || c.types[i]
			}
		}
		return v
	case "tail": // errors.Unwrap(stack): the inner node holding all but the newest constituent
		// built over leaf children only, so that what each constituent
		// carries below it is the constituent itself
		st := &ers.Stack{}
		var pushed []error
		var types [3]bool
		for _, c := range cs {
			if c.err == nil || len(c.under) != 0 || c.dissolves {
				continue
			}
			st.Push(c.err)
			pushed = append(pushed, c.err)
			for i := range types {
				types[i] = types[i] || c.types[i]
			}
		}
		if len(pushed) < 2 {
			return val{depth: depth, hasNil: true}
		}
		inner := errors.Unwrap(st)
		b.inner = append(b.inner, inner)
		rest := reverse(pushed)[1:] // newest first, without the newest
		var rtypes [3]bool
		for _, e := range rest {
			switch e.(type) {
			case *typedA:
				rtypes[0] = true
			case *typedB:
				rtypes[1] = true
			case *typedC:
				rtypes[2] = true
			}
		}
		return val{err: inner, dissolves: true, under: append([]error{}, rest...), flat: append([]error{}, rest...), types: rtypes, depth: depth + 1, hasNil: hasNil}
	case "join": // ers.Join(children...)
		var args []error
		for _, c := range cs {
			args = append(args, c.err)
		}
		joined := ers.Join(args...)
		flat, under, nested, types, notes := pushAll(cs)
		v := val{err: joined, under: under, nested: nested, types: types, notes: notes, depth: depth + 1, hasNil: hasNil}
		switch len(flat) {
		case 0:
			return val{err: joined, depth: depth + 1, hasNil: true}
		case 1:
			// identity: the single constituent itself
			v.flat = flat
		default:
			v.dissolves = true
			v.flat = reverse(flat)
		}
		return v
	case "stack", "rawstack": // explicit Push / Add sequence
		st := &ers.Stack{}
		for i, c := range cs {
			if i%2 == 0 {
				st.Push(c.err)
			} else {
				st.Add(c.err)
			}
		}
		return stackOf(s.K == "stack", st)
	case "asstack": // ers.AsStack(child)
		c := cs[0]
		st := ers.AsStack(c.err)
		if c.err == nil {
			if st != nil {
				return val{err: st, flat: []error{st}, depth: depth + 1}
			}
			return val{depth: depth + 1, hasNil: true}
		}
		v := val{err: st, dissolves: true, under: c.kept(), nested: c.nested, types: c.types, notes: c.notes, depth: depth + 1, hasNil: hasNil}
		if _, isStack := c.err.(*ers.Stack); isStack {
			// the very same stack
			v.flat = c.flat
			return v
		}
		v.flat = reverse(c.flat)
		return v
	case "wrapnote", "wrapfnote": // ers.Wrap / ers.Wrapf: Join(err, annotation)
		c := cs[0]
		note := fmt.Sprint("note#", s.I)
		var e error
		if s.K == "wrapnote" {
			e = ers.Wrap(c.err, "note#", s.I)
		} else {
			e = ers.Wrapf(c.err, "note#%d", s.I)
		}
		if c.err == nil {
			return val{err: e, depth: depth + 1, hasNil: true}
		}
		v := val{err: e, dissolves: true, under: c.kept(), nested: c.nested, types: c.types, depth: depth + 1, hasNil: hasNil}
		if _, ok := c.err.(*ers.Stack); ok {
			v.nested = true
		}
		// push order: the child's constituents, then the annotation
		v.flat = reverse(append(append([]error{}, c.flat...), nil))
		v.notes = append(append([]string{}, c.notes...), note)
		return v
	case "panic-error": // ParsePanic(error) = Join(err, ErrRecoveredPanic)
		c := cs[0]
		var pv any
		if c.err != nil {
			pv = c.err
		}
		e := ers.ParsePanic(pv)
		if c.err == nil {
			return val{err: e, depth: depth + 1, hasNil: true}
		}
		v := val{err: e, dissolves: true, under: append(append([]error{}, c.kept()...), ers.ErrRecoveredPanic), nested: c.nested, types: c.types, notes: c.notes, depth: depth + 1, hasNil: hasNil}
		if _, ok := c.err.(*ers.Stack); ok {
			v.nested = true
		}
		v.flat = reverse(append(append([]error{}, c.flat...), ers.ErrRecoveredPanic))
		return v
	case "panic-string", "panic-other":
		var e error
		var text string
		if s.K == "panic-string" {
			text = fmt.Sprint("boom#", s.I)
			e = ers.ParsePanic(text)
		} else {
			text = fmt.Sprintf("[int]: %d", s.I)
			e = ers.ParsePanic(s.I)
		}
		return val{err: e, dissolves: true, under: []error{ers.ErrRecoveredPanic}, flat: []error{ers.ErrRecoveredPanic, nil}, notes: []string{text}, depth: 1}
	case "collector": // erc.Collector: Add each child, Resolve
		ec := &erc.Collector{}
		for _, c := range cs {
			ec.Add(c.err)
		}
		flat, under, nested, types, notes := pushAll(cs)
		if len(flat) == 0 {
			return val{err: ec.Resolve(), depth: depth + 1, hasNil: true}
		}
		return val{err: ec.Resolve(), dissolves: true, under: under, flat: reverse(flat), nested: nested, types: types, notes: notes, depth: depth + 1, hasNil: hasNil}
	}
	panic("unknown spec kind " + s.K)
}

// root kinds whose result is produced by ers / erc (the others only build
// inputs with the standard library)
var ersKinds = map[string]bool{"join": true, "stack": true, "rawstack": true, "asstack": true, "wrapnote": true, "wrapfnote": true, "panic-error": true, "panic-string": true, "panic-other": true, "collector": true}

func isStack(e error) bool { _, ok := e.(*ers.Stack); return ok }

var kinds1 = []string{"wrap", "asstack", "wrapnote", "wrapfnote", "panic-error"}
var kindsN = []string{"join", "join", "ejoin", "batch", "tail", "stack", "rawstack", "collector"}

func genSpec(t *rapid.T, depth int) Spec {
	k := rapid.IntRange(0, 11).Draw(t, "kind")
	if depth <= 0 && k > 4 {
		k %= 5
	}
	switch {
	case k == 0:
		return Spec{K: "nil"}
	case k == 1:
		return Spec{K: "sent", I: rapid.IntRange(0, 2).Draw(t, "sentinel")}
	case k == 2:
		return Spec{K: "ptr"}
	case k == 3:
		return Spec{K: "typed", I: rapid.IntRange(0, 2).Draw(t, "type")}
	case k == 4:
		return Spec{K: rapid.SampledFrom([]string{"panic-string", "panic-other"}).Draw(t, "panic"), I: rapid.IntRange(0, 9).Draw(t, "i")}
	case k <= 6:
		return Spec{K: rapid.SampledFrom(kinds1).Draw(t, "unary"), I: rapid.IntRange(0, 9).Draw(t, "i"), C: []Spec{genSpec(t, depth-1)}}
	case k == 7:
		return Spec{K: "wrap2", C: []Spec{genSpec(t, depth-1), genSpec(t, depth-1)}}
	}
	n := rapid.IntRange(0, 4).Draw(t, "arity")
	s := Spec{K: rapid.SampledFrom(kindsN).Draw(t, "nary")}
	for i := 0; i < n; i++ {
		s.C = append(s.C, genSpec(t, depth-1))
	}
	return s
}

func countOf(in []error, e error) int {
	n := 0
	for _, x := range in {
		if x == e {
			n++
		}
	}
	return n
}

// checkSpec builds the tree and checks it, under a watchdog.
func checkSpec(t vkit.TB, s Spec) (v val) {
	vkit.Watch(tAgg, "C12:terminates", 30*time.Second, func() any { return s }, func() { v = checkSpecStep(t, s) })
	return v
}

func checkSpecStep(t vkit.TB, s Spec) (v val) {
	fail := func(key, f string, a ...any) { t.Helper(); vkit.Fail(t, tAgg, "C12:"+key, s, f, a...) }
	failing := false
	defer func() {
		if r := recover(); r != nil {
			if !failing {
				failing = true
				fail("panic", "panic: %v", r)
			}
			panic(r)
		}
	}()
	realFail := fail
	fail = func(key, f string, a ...any) { t.Helper(); failing = true; realFail(key, f, a...) }

	b := &builder{}
	v = b.build(s)
	// looking at an error must not change it: every custom multi-error
	// of the tree is unwound once (as a caller inspecting a constituent
	// would), then everything below is checked, and at the end the slices
	// these errors expose must be what they were and a second Unwind of
	// the result must list the same errors as the first.
	for _, r := range b.slots {
		_ = ers.Unwind(r.owner)
	}
	var firstUnwind []error
	if v.err != nil {
		firstUnwind = ers.Unwind(v.err)
	}
	defer func() {
		if failing || v.err == nil {
			return
		}
		for _, r := range b.slots {
			for i := range r.pristine {
				if r.live[i] != r.pristine[i] {
					fail("input-mutated", "slot %d of the multi-error %q changed from %v to %v after it was inspected with Unwind / aggregated", i, r.owner, r.pristine[i], r.live[i])
				}
			}
		}
		again := ers.Unwind(v.err)
		if len(again) != len(firstUnwind) {
			fail("unwind-unstable", "a second Unwind of the result lists %d errors, the first listed %d: %v vs %v", len(again), len(firstUnwind), again, firstUnwind)
		}
		for i := range again {
			if again[i] != firstUnwind[i] {
				fail("unwind-unstable", "Unwind[%d] changed from %v to %v between two calls", i, firstUnwind[i], again[i])
			}
		}
	}()
	// a typed nil *Stack is not a nil error; the builder never makes one
	if st, ok := v.err.(*ers.Stack); ok && st == nil {
		v.err = nil
	}
	if (v.err == nil) != (len(v.flat) == 0) {
		fail("nil-iff-empty", "result is %v but the tree supplies %d non-nil constituents", v.err, len(v.flat))
	}
	if v.err == nil {
		return v
	}
	for _, l := range v.all() {
		if l == nil {
			continue
		}
		if !errors.Is(v.err, l) {
			fail("is", "errors.Is(result, %q) is false for a constituent", l)
		}
		if !ers.Is(v.err, sentinels[0], l) && l != sentinels[0] {
			fail("is", "ers.Is(result, …, %q) is false for a constituent", l)
		}
	}
	if errors.Is(v.err, ers.Error("an-unrelated-sentinel")) || errors.Is(v.err, errors.New("ptr#1")) {
		fail("is-unrelated", "errors.Is succeeds for an unrelated error")
	}
	for i, s3 := range sentinels {
		present := false
		for _, l := range v.all() {
			present = present || l == s3
		}
		if !present && errors.Is(v.err, s3) {
			fail("is-unrelated", "errors.Is(result, sentinel %d) succeeds although it is not in the tree", i)
		}
	}
	var ta *typedA
	var tb *typedB
	var tc *typedC
	for i, got := range []bool{errors.As(v.err, &ta), errors.As(v.err, &tb), errors.As(v.err, &tc)} {
		if got != v.types[i] {
			fail("as", "errors.As for typed error %d = %v, present in the tree: %v", i, got, v.types[i])
		}
	}
	if v.types[0] && countOf(v.all(), error(ta)) == 0 {
		fail("as", "errors.As produced a *typedA that is not in the tree")
	}

	uw := ers.Unwind(v.err)
	if st, ok := v.err.(*ers.Stack); ok {
		// stack results list every constituent exactly once
		// (Len is the cached height of a stack built through the ers API;
		// the inner node errors.Unwrap hands out does not carry it)
		isInner := false
		for _, in := range b.inner {
			isInner = isInner || in == v.err
		}
		if len(uw) != len(v.flat) || (!isInner && st.Len() != len(v.flat)) {
			fail("unwind", "Unwind lists %d errors (Len %d), the tree supplies %d constituents: %v", len(uw), st.Len(), len(v.flat), uw)
		}
		// v.flat is the order in which this stack would be pushed
		// onto another one: newest first, i.e. the Unwind order
		want := v.flat
		noteTexts := map[string]int{}
		for _, n := range v.notes {
			noteTexts[n]++
		}
		for i, e := range uw {
			if e == nil {
				fail("unwind", "Unwind contains a nil error at %d", i)
			}
		}
		if !v.nested {
			for i := range uw {
				if want[i] == nil {
					if noteTexts[uw[i].Error()] == 0 {
						fail("unwind", "position %d of Unwind should be an annotation, got %q", i, uw[i])
					}
					continue
				}
				if uw[i] != want[i] {
					fail("unwind-order", "Unwind[%d]=%q, most-recent-first order wants %q (all: %v)", i, uw[i], want[i], uw)
				}
			}
		} else {
			used := make([]bool, len(uw))
			for _, c := range want {
				found := false
				for i := range uw {
					if !used[i] && (uw[i] == c || (c == nil && noteTexts[uw[i].Error()] > 0)) {
						used[i], found = true, true
						break
					}
				}
				if !found {
					fail("unwind", "constituent %v is missing from Unwind %v", c, uw)
				}
			}
		}
	} else if len(v.flat) == 1 && ersKinds[s.K] {
		// a single constituent comes back as itself
		if v.flat[0] != nil && v.err != v.flat[0] {
			fail("identity", "a single constituent %q came back as a different error %q (%T)", v.flat[0], v.err, v.err)
		}
		if countOf(uw, v.err) != 1 || uw[0] != v.err {
			fail("unwind", "Unwind of the single error %q is %v", v.err, uw)
		}
	}
	if v.err.Error() == "" {
		fail("message", "the aggregate has an empty message")
	}
	return v
}

func nodes(s Spec) int {
	n := 1
	for _, c := range s.C {
		n += nodes(c)
	}
	return n
}

func TestAggregation(t *testing.T) {
	var rc Spec
	if ok, err := vkit.ReplayCase(tAgg, &rc); err != nil {
		t.Fatal(err)
	} else if ok {
		checkSpec(t, rc)
		return
	}
	rapid.Check(t, propAggregation)
}

// propAggregation is the generated property; FuzzAggregation drives the same function with
// the native coverage-guided fuzzer (rapid.MakeFuzz decodes the bytes).
func propAggregation(t *rapid.T) {
	s := genSpec(t, rapid.IntRange(1, 4).Draw(t, "depth"))
	v := checkSpec(t, s)
	classes := []string{"root:" + s.K, fmt.Sprintf("depth:%d", v.depth)}
	if v.nested {
		classes = append(classes, "stack-in-stack")
	}
	if v.hasNil {
		classes = append(classes, "has-nil")
	}
	if v.err == nil {
		classes = append(classes, "result-nil")
	}
	vkit.Case(tAgg, vkit.Hash(s), v.depth >= 2 || (v.hasNil && nodes(s) >= 3), classes, func() any { return s })
}

func FuzzAggregation(f *testing.F) { f.Fuzz(rapid.MakeFuzz(propAggregation)) }

// ---------------------------------------------------------------------
// concurrent leg: a Collector holds exactly the non-nil errors added

const tColl = "TestCollectorConcurrent"

type collCase struct {
	Procs   int     `json:"gomaxprocs"`
	Adders  [][]int `json:"adders"`  // per goroutine: 0 nil, 1 pointer error, 2 sentinel, 3 errors.Join of two, 4 wrapped, 5 ers.Join of two (a *Stack), 6 ers.ParsePanic(error)
	Readers int     `json:"readers"` // goroutines calling Len/HasErrors/Ok meanwhile
	Yields  []int   `json:"yields"`
}

func runColl(t vkit.TB, c collCase, reps int) {
	for r := 0; r < reps; r++ {
		ec := &erc.Collector{}
		var want []error
		var wmu sync.Mutex
		var wg sync.WaitGroup
		type origin struct{ g, seq int }
		var seqOf sync.Map // error -> origin
		start := make(chan struct{})
		ctx, cancel := context.WithCancel(context.Background())
		for g, items := range c.Adders {
			wg.Add(1)
			go func(g int, items []int) {
				defer wg.Done()
				<-start
				uniq := 0
				for i, k := range items {
					vkit.Yield(c.Yields[(g+i)%len(c.Yields)])
					var e error
					var mine []error
					switch k {
					case 1:
						e = fmt.Errorf("g%d-%d", g, i)
						mine = []error{e}
					case 2:
						e = sentinels[(g+i)%3]
						mine = []error{e}
					case 3:
						a, b := fmt.Errorf("g%d-%d-a", g, i), fmt.Errorf("g%d-%d-b", g, i)
						e = errors.Join(a, nil, b)
						mine = []error{a, b}
					case 4:
						e = fmt.Errorf("g%d-%d: %w", g, i, sentinels[0])
						mine = []error{e}
					case 5:
						// an aggregate of the library's own making: a *Stack
						a, b := fmt.Errorf("g%d-%d-a", g, i), fmt.Errorf("g%d-%d-b", g, i)
						e = ers.Join(a, b)
						mine = []error{a, b}
					case 6:
						// what a recovered panic is: the value joined with
						// ErrRecoveredPanic (also a *Stack)
						a := fmt.Errorf("g%d-%d-panic", g, i)
						e = ers.ParsePanic(a)
						mine = []error{a, ers.ErrRecoveredPanic}
					}
					for _, u := range mine {
						if k != 2 && u != error(ers.ErrRecoveredPanic) { // sentinels repeat
							seqOf.Store(u, origin{g, uniq})
							uniq++
						}
					}
					if i%2 == 0 {
						ec.Add(e)
					} else {
						ec.Handler()(e)
					}
					wmu.Lock()
					want = append(want, mine...)
					wmu.Unlock()
				}
			}(g, items)
		}
		// seqOf tells, for the errors that exist only once (pointer errors
		// made by one adder), which adder made them and as its how-manieth:
		// an iterator snapshot must hold each at most once, and never a
		// later error of an adder without the earlier ones (they were all
		// in the collector when the later one was added)
		var rwg sync.WaitGroup
		for i := 0; i < c.Readers; i++ {
			rwg.Add(1)
			go func() {
				defer rwg.Done()
				<-start
				last := 0
				for ctx.Err() == nil {
					snap, _ := ec.Iterator().Slice(context.Background())
					seen := map[error]bool{}
					newest := map[int]int{}
					have := map[origin]bool{}
					for _, e := range snap {
						if e == nil {
							cancel()
							vkit.SaveCase(tColl, "C12:collector", "an iterator snapshot taken during concurrent Adds contains a nil error", c)
							return
						}
						o, unique := seqOf.Load(e)
						if !unique {
							continue
						}
						if seen[e] {
							cancel()
							vkit.SaveCase(tColl, "C12:collector", fmt.Sprintf("an iterator snapshot taken during concurrent Adds lists %q twice (%d errors)", e, len(snap)), c)
							return
						}
						seen[e] = true
						og := o.(origin)
						have[og] = true
						if og.seq+1 > newest[og.g] {
							newest[og.g] = og.seq + 1
						}
					}
					for g, n := range newest {
						for k := 0; k < n; k++ {
							if !have[origin{g, k}] {
								cancel()
								vkit.SaveCase(tColl, "C12:collector", fmt.Sprintf("an iterator snapshot taken during concurrent Adds holds error %d of adder %d but not its earlier error %d", n-1, g, k), c)
								return
							}
						}
					}
					n := ec.Len()
					if n < last {
						cancel()
						vkit.SaveCase(tColl, "C12:collector", fmt.Sprintf("Len went from %d to %d while only Adds were running", last, n), c)
						return
					}
					last = n
					if ec.HasErrors() == ec.Ok() {
						// both read under separate locks; only their
						// individual monotonicity is meaningful
						_ = 0
					}
				}
			}()
		}
		close(start)
		wg.Wait()
		bad := ctx.Err() != nil
		cancel()
		rwg.Wait()
		if bad {
			t.Fatalf("[C12:collector] a reader saw an inconsistent collector during concurrent Adds (see the saved case)")
		}
		res := ec.Resolve()
		if (res == nil) != (len(want) == 0) {
			vkit.Fail(t, tColl, "C12:collector", c, "Resolve()=%v after %d non-nil errors were added", res, len(want))
		}
		if ec.Len() != len(want) || ec.HasErrors() != (len(want) > 0) || ec.Ok() != (len(want) == 0) {
			vkit.Fail(t, tColl, "C12:collector", c, "Len()=%d HasErrors=%v after %d non-nil errors were added", ec.Len(), ec.HasErrors(), len(want))
		}
		uw := ers.Unwind(res)
		if len(uw) != len(want) {
			vkit.Fail(t, tColl, "C12:collector", c, "Unwind lists %d errors, %d were added", len(uw), len(want))
		}
		used := make([]bool, len(uw))
		for _, w := range want {
			found := false
			for i := range uw {
				if !used[i] && uw[i] == w {
					used[i], found = true, true
					break
				}
			}
			if !found {
				vkit.Fail(t, tColl, "C12:collector", c, "error %q was added but is not in the collector", w)
			}
			if !errors.Is(res, w) {
				vkit.Fail(t, tColl, "C12:collector", c, "errors.Is(Resolve(), %q) is false", w)
			}
		}
		it, err := ec.Iterator().Slice(context.Background())
		if err != nil || len(it) != len(want) {
			vkit.Fail(t, tColl, "C12:collector", c, "Iterator yields %d errors (%v), %d were added", len(it), err, len(want))
		}
	}
}

func TestCollectorConcurrent(t *testing.T) {
	var rc collCase
	if ok, err := vkit.ReplayCase(tColl, &rc); err != nil {
		t.Fatal(err)
	} else if ok {
		runColl(t, rc, 100)
		return
	}
	reps := vkit.Pick(4, 10)
	rapid.Check(t, func(t *rapid.T) {
		c := collCase{Procs: 0, Readers: rapid.IntRange(0, 2).Draw(t, "readers")}
		ng := rapid.IntRange(1, 6).Draw(t, "adders")
		total, nils := 0, 0
		for g := 0; g < ng; g++ {
			items := rapid.SliceOfN(rapid.IntRange(0, 6), 0, 12).Draw(t, "items")
			c.Adders = append(c.Adders, items)
			for _, k := range items {
				total++
				if k == 0 {
					nils++
				}
			}
		}
		c.Yields = rapid.SliceOfN(rapid.IntRange(0, 4), 1, 5).Draw(t, "yields")
		runColl(t, c, reps)
		vkit.CaseN(tColl, vkit.Hash(c), reps, ng >= 2 && total-nils >= 2, []string{fmt.Sprintf("adders=%d", ng), fmt.Sprintf("has-nil=%v", nils > 0)}, func() any { return c })
	})
}
