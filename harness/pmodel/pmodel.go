// Package pmodel holds the sequential reference models of pubsub.Queue and
// pubsub.Deque, written from the documented rules (independent of the
// library's code): a FIFO / double-ended sequence, a closed flag and the
// limit tracker (unlimited, fixed capacity, or soft quota / hard limit /
// burst credit).
package pmodel

import (
	"errors"
	"fmt"
	"math"
	"strconv"
	"strings"
)

var (
	ErrFull   = errors.New("model: full")
	ErrCredit = errors.New("model: no credit")
)

const (
	Unlimited = iota
	Capacity
	Quota
)

// Tracker is the limit bookkeeping; it is a comparable value.
type Tracker struct {
	Kind   int
	Soft   int
	Hard   int
	Credit float64
	N      int
}

// NewQuota mirrors the documented normalisation of QueueOptions: a zero
// soft quota means the hard limit, a zero credit means the soft quota.
func NewQuota(hard, soft int, credit float64) Tracker {
	if soft <= 0 {
		soft = hard
	}
	if credit == 0 {
		credit = float64(soft)
	}
	return Tracker{Kind: Quota, Soft: soft, Hard: hard, Credit: credit}
}

func (t Tracker) Cap() int {
	switch t.Kind {
	case Unlimited:
		return math.MaxInt
	case Capacity:
		return t.Hard
	}
	return t.Soft
}

// Add returns the tracker after one successful add, or the reason for
// the refusal.
func (t Tracker) Add() (Tracker, error) {
	switch t.Kind {
	case Unlimited:
	case Capacity:
		if t.N >= t.Hard {
			return t, ErrFull
		}
	default:
		if t.N >= t.Soft {
			if t.N == t.Hard {
				return t, ErrFull
			}
			if t.Credit < 1 {
				return t, ErrCredit
			}
			t.Credit--
			t.Soft = t.N + 1
		}
	}
	t.N++
	return t, nil
}

// Remove returns the tracker after one removal.
func (t Tracker) Remove() Tracker {
	t.N--
	if t.Kind != Quota {
		return t
	}
	if t.N < t.Soft {
		if t.Soft > 1 && t.N < t.Soft/2 {
			t.Soft--
		}
		t.Credit += float64(t.Soft-t.N) / float64(t.Soft)
		if c := float64(t.Hard - t.Soft); t.Credit > c {
			t.Credit = c
		}
	}
	return t
}

// Seq is the container content as a comparable value ("1,2,3").
type Seq string

func (s Seq) Items() []int {
	if s == "" {
		return nil
	}
	parts := strings.Split(string(s), ",")
	out := make([]int, len(parts))
	for i, p := range parts {
		out[i], _ = strconv.Atoi(p)
	}
	return out
}

func FromItems(in []int) Seq {
	parts := make([]string, len(in))
	for i, v := range in {
		parts[i] = strconv.Itoa(v)
	}
	return Seq(strings.Join(parts, ","))
}

func (s Seq) Len() int { return len(s.Items()) }

func (s Seq) PushBack(v int) Seq  { return FromItems(append(s.Items(), v)) }
func (s Seq) PushFront(v int) Seq { return FromItems(append([]int{v}, s.Items()...)) }
func (s Seq) PopFront() (int, Seq) {
	it := s.Items()
	return it[0], FromItems(it[1:])
}
func (s Seq) PopBack() (int, Seq) {
	it := s.Items()
	return it[len(it)-1], FromItems(it[:len(it)-1])
}

// State is the whole container state (comparable, as porcupine wants).
type State struct {
	Items  Seq
	Closed bool
	T      Tracker
}

func (s State) String() string {
	return fmt.Sprintf("[%s] closed=%v n=%d soft=%d credit=%.3f", s.Items, s.Closed, s.T.N, s.T.Soft, s.T.Credit)
}
