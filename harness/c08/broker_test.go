// Package c08 decides property C08: the broker delivers each message
// exactly once, in order, to every subscriber.
package c08

import (
	"context"
	"fmt"
	"runtime"
	"strings"
	"sync"
	"sync/atomic"
	"testing"
	"time"

	"github.com/tychoish/fun/pubsub"
	"pgregory.net/rapid"

	"verif/harness/vkit"
)

func TestMain(m *testing.M) { vkit.Main(m) }

const tBroker = "TestBrokerDelivery"

type Sub struct {
	SubscribeAfter   int   `json:"subscribe_after"`   // subscribes once that many publishes have returned (0: before the first)
	UnsubscribeAfter int   `json:"unsubscribe_after"` // calls Unsubscribe after receiving that many messages (-1: only at the end)
	Yields           []int `json:"yields"`            // read speed pattern
}

type Case struct {
	Backend    string `json:"backend"` // channel | queue | deque | queue-bounded | lifo
	Capacity   int    `json:"capacity,omitempty"`
	Parallel   bool   `json:"parallel_dispatch"`
	Workers    int    `json:"worker_pool_size"`
	BufferSize int    `json:"buffer_size"`
	Publishers int    `json:"publishers"`
	Messages   int    `json:"messages_per_publisher"`
	PubYields  []int  `json:"publisher_yields"`
	Subs       []Sub  `json:"subscribers"`
	Procs      int    `json:"gomaxprocs"`
	// Redundant: Unsubscribe calls that remove nothing - after that many
	// publishes, of a channel that was never subscribed ("foreign") or of
	// one that has been unsubscribed already ("again").  The other
	// subscribers must not notice.
	Redundant []Redundant `json:"redundant_unsubscribes,omitempty"`
	// CloseBackend: the run ends by closing the queue / deque behind the
	// broker right after the last Publish returned (whatever is still
	// undelivered may be dropped, nothing may be invented or doubled)
	CloseBackend bool `json:"close_backend,omitempty"`
	// Lockstep: the (single) publisher waits until every subscriber has
	// the message before it publishes the next one, so the dispatch
	// workers go idle after every message and each message has to wake
	// them by itself (lossless configurations, subscribers that stay)
	Lockstep bool `json:"lockstep,omitempty"`
}

type Redundant struct {
	After int    `json:"after"`
	Kind  string `json:"kind"`
}

func (c *Case) lossless() bool {
	return c.BufferSize == 0 && (c.Backend == "channel" || c.Backend == "queue" || c.Backend == "deque" || c.filtered())
}

func mkBroker(ctx context.Context, c *Case) (*pubsub.Broker[int], func()) {
	opts := pubsub.BrokerOptions{ParallelDispatch: c.Parallel, WorkerPoolSize: c.Workers, BufferSize: c.BufferSize}
	switch c.Backend {
	case "channel":
		return pubsub.NewBroker[int](ctx, opts), nil
	case "queue":
		q := pubsub.NewUnlimitedQueue[int]()
		return pubsub.NewQueueBroker[int](ctx, q, opts), func() { _ = q.Close() }
	case "deque":
		dq := pubsub.NewUnlimitedDeque[int]()
		return pubsub.NewDequeBroker[int](ctx, dq, opts), func() { _ = dq.Close() }
	case "queue-bounded":
		q, err := pubsub.NewQueue[int](pubsub.QueueOptions{HardLimit: c.Capacity, SoftQuota: c.Capacity})
		if err != nil {
			panic(err)
		}
		return pubsub.NewQueueBroker[int](ctx, q, opts), func() { _ = q.Close() }
	case "queue-filtered", "deque-filtered":
		// a broker over a distributor with an output filter (and, for the
		// deque, an input filter as well): the filters decide which
		// messages exist for the subscribers at all
		var d pubsub.Distributor[int]
		var closer func()
		if c.Backend == "queue-filtered" {
			q := pubsub.NewUnlimitedQueue[int]()
			d, closer = q.Distributor().WithOutputFilter(passes), func() { _ = q.Close() }
		} else {
			dq := pubsub.NewUnlimitedDeque[int]()
			d, closer = dq.Distributor().WithInputFilter(passes), func() { _ = dq.Close() }
		}
		return pubsub.MakeDistributorBroker[int](ctx, d, opts), closer
	default:
		return pubsub.NewLIFOBroker[int](ctx, opts, c.Capacity), nil
	}
}

// passes is the filter of the filtered back-ends: every third message of a
// publisher is dropped.
func passes(v int) bool { return v%3 != 2 }

func (c *Case) filtered() bool { return c.Backend == "queue-filtered" || c.Backend == "deque-filtered" }

type subState struct {
	ch        chan int
	subStamp  int64 // Subscribe returned
	unsubCall atomic.Int64
	mu        sync.Mutex
	got       []int
}

func (s *subState) received() []int {
	s.mu.Lock()
	defer s.mu.Unlock()
	return append([]int{}, s.got...)
}

func runCase(c *Case) (string, string) {
	if c.Procs > 0 {
		old := runtime.GOMAXPROCS(c.Procs)
		defer runtime.GOMAXPROCS(old)
	}
	limit := vkit.Limit()
	ctx, cancel := context.WithCancel(context.Background())
	defer cancel()
	var clock atomic.Int64
	b, closeBackend := mkBroker(ctx, c)
	defer func() { b.Stop(); cancel() }()

	total := c.Publishers * c.Messages
	pubCall := make([]atomic.Int64, total)   // stamp taken before Publish is called
	pubReturn := make([]atomic.Int64, total) // stamp taken after it returned
	var published atomic.Int64
	idOf := func(p, k int) int { return p*c.Messages + k }
	// message values are never the zero value of the element type
	valOf := func(id int) int { return (id/c.Messages+1)*10000 + id%c.Messages }
	idOfVal := func(v int) int { return (v/10000-1)*c.Messages + v%10000 }

	subs := make([]*subState, len(c.Subs))
	var rwg sync.WaitGroup
	stopReaders := make(chan struct{})
	ack := make(chan struct{}, 16)
	startSub := func(i int) string {
		s := &subState{}
		s.ch = b.Subscribe(ctx)
		if s.ch == nil {
			return fmt.Sprintf("Subscribe %d returned nil with a live context", i)
		}
		s.subStamp = clock.Add(1)
		subs[i] = s
		rwg.Add(1)
		go func() {
			defer rwg.Done()
			conf := c.Subs[i]
			n := 0
			for {
				select {
				case v := <-s.ch:
					s.mu.Lock()
					s.got = append(s.got, v)
					s.mu.Unlock()
					n++
					if c.Lockstep {
						ack <- struct{}{}
					}
					if conf.UnsubscribeAfter >= 0 && n == conf.UnsubscribeAfter && s.unsubCall.Load() == 0 {
						// from another goroutine: the subscriber keeps
						// receiving while its Unsubscribe is in flight
						s.unsubCall.Store(clock.Add(1))
						go b.Unsubscribe(ctx, s.ch)
					}
					vkit.Yield(conf.Yields[n%len(conf.Yields)])
				case <-stopReaders:
					return
				}
			}
		}()
		return ""
	}
	for i, s := range c.Subs {
		if s.SubscribeAfter == 0 {
			if why := startSub(i); why != "" {
				return "subscribe", why
			}
			if c.Subs[i].UnsubscribeAfter == 0 {
				subs[i].unsubCall.Store(clock.Add(1))
				b.Unsubscribe(ctx, subs[i].ch)
			}
		}
	}
	var lateMu sync.Mutex
	redundantDone := make([]bool, len(c.Redundant))
	late := func() string {
		lateMu.Lock()
		defer lateMu.Unlock()
		n := int(published.Load())
		for ri, r := range c.Redundant {
			if redundantDone[ri] || r.After > n {
				continue
			}
			redundantDone[ri] = true
			ch := make(chan int)
			if r.Kind == "again" {
				for _, s := range subs {
					if s != nil && s.unsubCall.Load() != 0 {
						ch = s.ch
						break
					}
				}
			}
			b.Unsubscribe(ctx, ch)
		}
		for i, s := range c.Subs {
			if subs[i] == nil && s.SubscribeAfter <= n {
				if why := startSub(i); why != "" {
					return why
				}
			}
		}
		return ""
	}
	var pwg sync.WaitGroup
	var pubErr, lockstepWhy atomic.Value
	for p := 0; p < c.Publishers; p++ {
		pwg.Add(1)
		go func(p int) {
			defer pwg.Done()
			for k := 0; k < c.Messages; k++ {
				id := idOf(p, k)
				vkit.Yield(c.PubYields[(p+k)%len(c.PubYields)])
				pubCall[id].Store(clock.Add(1))
				b.Publish(ctx, valOf(id))
				pubReturn[id].Store(clock.Add(1))
				published.Add(1)
				if why := late(); why != "" {
					pubErr.Store(why)
				}
				if c.Lockstep && (!c.filtered() || passes(valOf(id))) {
					// every subscriber acknowledges the message the moment
					// it has it; the next Publish follows at once, while the
					// worker is on its way back to an empty distributor
					tm := time.NewTimer(limit)
					for n := 0; n < len(c.Subs); n++ {
						select {
						case <-ack:
						case <-tm.C:
							lockstepWhy.Store(fmt.Sprintf("message %d (the %d-th; Publish returned, nothing else is being published) has reached only %d of %d subscribers after %v although they all keep receiving (backlog %d)", valOf(id), k+1, n, len(c.Subs), limit, b.Stats(ctx).BufferDepth))
							return
						}
					}
					tm.Stop()
				}
			}
		}(p)
	}
	pubDone := make(chan struct{})
	go func() { pwg.Wait(); close(pubDone) }()
	select {
	case <-pubDone:
	case <-time.After(2 * limit):
		stacks := ""
		for _, g := range vkit.Goroutines() {
			if strings.Contains(g, "tychoish/fun/pubsub") || strings.Contains(g, "c08.runCase") {
				stacks += g + "\n\n"
			}
		}
		if len(stacks) > 12000 {
			stacks = stacks[:12000]
		}
		return "publish-stuck", fmt.Sprintf("the publishers have not finished after %v although every subscriber keeps receiving (%d of %d published)\n%s", 2*limit, published.Load(), total, stacks)
	}
	if why, _ := pubErr.Load().(string); why != "" {
		return "subscribe", why
	}
	if why, _ := lockstepWhy.Load().(string); why != "" {
		return "lost", why
	}
	published.Store(int64(total))
	if why := late(); why != "" {
		return "subscribe", why
	}
	// what each subscriber must get (lossless configurations)
	must := func(s *subState) map[int]bool {
		out := map[int]bool{}
		un := s.unsubCall.Load()
		for id := 0; id < total; id++ {
			if pubCall[id].Load() > s.subStamp && (un == 0 || pubReturn[id].Load() < un) && (!c.filtered() || passes(valOf(id))) {
				out[valOf(id)] = true
			}
		}
		return out
	}
	closing := c.CloseBackend && closeBackend != nil
	if closing {
		closeBackend()
	}
	// While the finding C08:lost-at-unsubscribe is open, a subscriber
	// that unsubscribes mid-stream is not required to receive its whole
	// window; what it may miss is bounded below (weakLeavers).
	weak := vkit.Known("C08:lost-at-unsubscribe")
	if closing {
		// the broker is shutting down: delivery of the tail is not
		// promised; give strays a moment to arrive
		time.Sleep(3 * time.Millisecond)
	} else if c.lossless() {
		var missing string
		lostKey := "lost"
		ok := vkit.Eventually(limit, func() bool {
			for i, s := range subs {
				lostKey = "lost"
				if c.Subs[i].UnsubscribeAfter >= 0 {
					lostKey = "lost-at-unsubscribe"
					if weak {
						continue
					}
				}
				have := map[int]bool{}
				for _, v := range s.received() {
					have[v] = true
				}
				for v := range must(s) {
					if !have[v] {
						missing = fmt.Sprintf("subscriber %d has not received message %d (published after its Subscribe returned and before its Unsubscribe was called); it has %d of %d", i, v, len(have), len(must(s)))
						return false
					}
				}
			}
			return true
		})
		if !ok {
			return lostKey, missing + fmt.Sprintf(" after %v", limit)
		}
	} else {
		// load-shedding: give the dispatcher a moment to drain
		vkit.Eventually(200*time.Millisecond, func() bool { return b.Stats(ctx).BufferDepth == 0 })
	}
	// quiet period so that duplicates / strays would have arrived
	time.Sleep(2 * time.Millisecond)
	for _, s := range subs {
		if s.unsubCall.Load() == 0 && !closing {
			s.unsubCall.Store(clock.Add(1))
			b.Unsubscribe(ctx, s.ch)
		}
	}
	close(stopReaders)
	rwg.Wait()
	// every configuration: only published messages, none twice
	var order [][]int
	for i, s := range subs {
		got := s.received()
		seen := map[int]bool{}
		for _, v := range got {
			id := idOfVal(v)
			if v < 10000 || v%10000 >= c.Messages || v/10000 > c.Publishers || pubCall[id].Load() == 0 {
				return "invented", fmt.Sprintf("subscriber %d received %d, which was never published", i, v)
			}
			if c.filtered() && !passes(v) {
				return "filtered-delivered", fmt.Sprintf("subscriber %d received %d, which the distributor's filter rejects", i, v)
			}
			if seen[v] {
				return "duplicate", fmt.Sprintf("subscriber %d received message %d twice (%v)", i, v, got)
			}
			seen[v] = true
		}
		order = append(order, got)
	}
	if c.lossless() && weak && !closing {
		// early leavers under the open finding: messages that were
		// still undispatched when the unsubscription took effect may be
		// missing - with one dispatch worker these are, per publisher,
		// the newest ones: whatever is missing from the window must be
		// newer than everything received from that publisher.  A gap
		// (an older message missing while a newer one of the same
		// publisher arrived) is a different loss and is reported.
		for i, s := range subs {
			if c.Subs[i].UnsubscribeAfter < 0 {
				continue
			}
			vkit.Excluded(tBroker, "C08:lost-at-unsubscribe")
			if c.Workers > 1 {
				continue
			}
			want := must(s)
			newest := map[int]int{}
			for _, v := range order[i] {
				if p, k := v/10000, v%10000; k >= newest[p] {
					newest[p] = k + 1
				}
			}
			have := map[int]bool{}
			for _, v := range order[i] {
				have[v] = true
			}
			for v := range want {
				if p, k := v/10000, v%10000; !have[v] && k < newest[p] {
					return "lost", fmt.Sprintf("subscriber %d (which unsubscribed mid-stream) has not received message %d of publisher %d although it received the later message %d of that publisher: %v", i, k, p, newest[p]-1, order[i])
				}
			}
		}
	}
	if c.lossless() && c.Workers <= 1 {
		// one dispatch worker: publisher order is preserved (also for
		// what was delivered before a closing back-end ended the run) …
		for i, got := range order {
			last := map[int]int{}
			for _, v := range got {
				p, k := v/10000, v%10000
				if prev, ok := last[p]; ok && k < prev {
					return "order", fmt.Sprintf("subscriber %d received message %d of publisher %d after message %d", i, k, p, prev)
				}
				last[p] = k
			}
		}
		// … and all subscribers observe the same relative order
		for i := 0; i < len(order); i++ {
			for j := i + 1; j < len(order); j++ {
				pos := map[int]int{}
				for k, v := range order[j] {
					pos[v] = k
				}
				lastPos := -1
				for _, v := range order[i] {
					if p, ok := pos[v]; ok {
						if p < lastPos {
							return "order", fmt.Sprintf("subscribers %d and %d observed the common messages in different orders: %v vs %v", i, j, order[i], order[j])
						}
						lastPos = p
					}
				}
			}
		}
	}
	return "", ""
}

func genCase(t *rapid.T) *Case {
	c := &Case{
		Backend:    rapid.SampledFrom([]string{"channel", "queue", "deque", "channel", "queue", "deque", "queue-bounded", "lifo", "queue-filtered", "deque-filtered"}).Draw(t, "backend"),
		Capacity:   rapid.IntRange(1, 4).Draw(t, "capacity"),
		Parallel:   rapid.Bool().Draw(t, "parallel"),
		Workers:    rapid.SampledFrom([]int{-2, -1, 0, 0, 1, 1, 2, 3}).Draw(t, "workers"), // "if unset this defaults to 1"
		Publishers: rapid.IntRange(1, 4).Draw(t, "publishers"),
		Messages:   rapid.IntRange(1, 12).Draw(t, "messages"),
		PubYields:  rapid.SliceOfN(rapid.IntRange(0, 4), 1, 4).Draw(t, "pubYields"),
		Procs:      rapid.SampledFrom([]int{1, 2, 4, 16}).Draw(t, "gomaxprocs"),
	}
	if rapid.IntRange(0, 3).Draw(t, "buffered") == 0 {
		c.BufferSize = rapid.IntRange(1, 2).Draw(t, "bufferSize")
	}
	if c.lossless() && rapid.IntRange(0, 4).Draw(t, "lockstep") == 0 {
		c.Lockstep = true
		c.Publishers = 1
		c.Messages = rapid.IntRange(50, 3000).Draw(t, "lockstepMessages")
	}
	total := c.Publishers * c.Messages
	ns := rapid.IntRange(1, 4).Draw(t, "subscribers")
	for i := 0; i < ns; i++ {
		s := Sub{UnsubscribeAfter: -1, Yields: rapid.SliceOfN(rapid.IntRange(0, 4), 1, 4).Draw(t, "subYields")}
		if rapid.IntRange(0, 2).Draw(t, "late") == 0 {
			s.SubscribeAfter = rapid.IntRange(1, total).Draw(t, "subscribeAfter")
		}
		if rapid.IntRange(0, 2).Draw(t, "leavesEarly") == 0 {
			s.UnsubscribeAfter = rapid.IntRange(0, total).Draw(t, "unsubscribeAfter")
		}
		if c.Lockstep {
			s.SubscribeAfter, s.UnsubscribeAfter = 0, -1
		}
		c.Subs = append(c.Subs, s)
	}
	// joiners in a burst: several subscribers arrive back to back at the
	// same point of the traffic, so that a dispatch worker is busy with the
	// consequences of one arrival while the next one lands
	if !c.Lockstep && total >= 3 && rapid.IntRange(0, 3).Draw(t, "burstJoin") == 0 {
		k := rapid.IntRange(1, total-1).Draw(t, "burstJoinAt")
		for j := 0; j < rapid.IntRange(2, 4).Draw(t, "burstJoiners"); j++ {
			c.Subs = append(c.Subs, Sub{SubscribeAfter: k, UnsubscribeAfter: -1, Yields: []int{0}})
		}
		if c.Publishers < 2 {
			c.Publishers = 2
		}
	}
	for i, n := 0, rapid.IntRange(0, 3).Draw(t, "redundant")-1; i < n; i++ {
		c.Redundant = append(c.Redundant, Redundant{After: rapid.IntRange(0, total).Draw(t, "redundantAfter"), Kind: rapid.SampledFrom([]string{"foreign", "again"}).Draw(t, "redundantKind")})
	}
	if c.Backend != "channel" && c.Backend != "lifo" && !c.Lockstep && rapid.IntRange(0, 5).Draw(t, "closeBackend") == 0 {
		c.CloseBackend = true
	}
	return c
}

func keyFor(_ *Case, k string) string { return "C08:" + k }

func TestBrokerDelivery(t *testing.T) {
	var rc Case
	if ok, err := vkit.ReplayCase(tBroker, &rc); err != nil {
		t.Fatal(err)
	} else if ok {
		for i := 0; i < 30; i++ {
			if k, why := runCase(&rc); why != "" {
				vkit.Fail(t, tBroker, keyFor(&rc, k), rc, "%s (repetition %d)", why, i)
			}
		}
		return
	}
	reps := vkit.Pick(2, 4)
	rapid.Check(t, func(t *rapid.T) {
		if vkit.AlreadyFailed(tBroker) {
			return
		}
		c := genCase(t)
		for i := 0; i < reps; i++ {
			if k, why := runCase(c); why != "" {
				vkit.Fail(t, tBroker, keyFor(c, k), *c, "%s (repetition %d)", why, i)
			}
		}
		cls := []string{"backend:" + c.Backend, fmt.Sprintf("lossless:%v", c.lossless()), fmt.Sprintf("parallel:%v", c.Parallel), fmt.Sprintf("workers:%d", c.Workers)}
		late, early := false, false
		for _, s := range c.Subs {
			late = late || s.SubscribeAfter > 0
			early = early || s.UnsubscribeAfter >= 0
		}
		if late {
			cls = append(cls, "late-subscriber")
		}
		if early {
			cls = append(cls, "early-unsubscribe")
		}
		if len(c.Redundant) > 0 {
			cls = append(cls, "redundant-unsubscribe")
		}
		if c.CloseBackend {
			cls = append(cls, "ends-by-closing-the-backend")
		}
		if c.Lockstep {
			cls = append(cls, "lockstep-publisher")
		}
		vkit.CaseN(tBroker, vkit.Hash(*c), reps, (len(c.Subs) >= 2 || c.Publishers >= 2) && c.Publishers*c.Messages >= 1, cls, func() any { return *c })
	})
}
