// Package c01 decides property C01: parallel iterator stages deliver every
// item exactly once.
package c01

import (
	"context"
	"fmt"
	"io"
	"runtime"
	"sort"
	"sync"
	"sync/atomic"
	"testing"
	"time"

	"github.com/tychoish/fun"
	"github.com/tychoish/fun/itertool"
	"pgregory.net/rapid"

	"verif/harness/vkit"
)

func TestMain(m *testing.M) { vkit.Main(m) }

const tFan = "TestExactlyOnce"

type Case struct {
	Construct string `json:"construct"`
	N         int    `json:"n"`
	Width     int    `json:"width"` // workers / split width / buffer size / sources / readers
	Dups      bool   `json:"dups"`  // input values repeat
	Buffered  int    `json:"chan_buffer,omitempty"`
	Empties   int    `json:"leading_empty_sources,omitempty"` // MergeIterators: that many empty sources in front of the others
	// WorkersVia says how the worker count reaches a worker group:
	// "option" (WorkerGroupConfNumWorkers), "set" (a prepared
	// WorkerGroupConf through WorkerGroupConfSet) or "custom" (a
	// hand-written provider assigning the field).  With NonPositive the
	// configured count is 0 or negative ("all values less than 1 are
	// converted to 1"): the case then runs with one worker.
	WorkersVia  string `json:"workers_via,omitempty"`
	NonPositive int    `json:"non_positive_workers,omitempty"` // 0: use Width; otherwise the count configured is 1-NonPositive (0, -1, -2, ...)
	Yields      []int  `json:"yields"`
	Procs       int    `json:"gomaxprocs"`
}

var constructs = []string{"Split", "ProcessParallel", "ParallelForEach", "itertool.Worker", "Map", "Map-ordered", "Buffer", "ParallelBuffer", "MergeIterators", "GenerateParallel", "ChannelIterator-readers", "Split-Map-Merge"}

// workers builds the option that configures the worker count.
func (c *Case) workers(w int) fun.OptionProvider[*fun.WorkerGroupConf] {
	n := w
	if c.NonPositive > 0 {
		n = 1 - c.NonPositive
	}
	switch c.WorkersVia {
	case "set":
		return fun.WorkerGroupConfSet(&fun.WorkerGroupConf{NumWorkers: n})
	case "custom":
		return func(o *fun.WorkerGroupConf) error { o.NumWorkers = n; return nil }
	}
	return fun.WorkerGroupConfNumWorkers(n)
}

func input(c *Case) []int {
	in := make([]int, c.N)
	for i := range in {
		if c.Dups {
			in[i] = i % 3
		} else {
			in[i] = i + 1
		}
	}
	return in
}

type sink struct {
	mu  sync.Mutex
	got []int
}

func (s *sink) add(v int) { s.mu.Lock(); s.got = append(s.got, v); s.mu.Unlock() }

// runCase returns the values that reached the user function / the output,
// whether order must equal the input order, and an error text.
func runCase(c *Case) (got []int, ordered bool, why string) {
	if c.Procs > 0 {
		old := runtime.GOMAXPROCS(c.Procs)
		defer runtime.GOMAXPROCS(old)
	}
	ctx, cancel := context.WithCancel(context.Background())
	defer cancel()
	in := input(c)
	y := func(i int) { vkit.Yield(c.Yields[i%len(c.Yields)]) }
	s := &sink{}
	w := c.Width
	ordered = w == 1
	var err error
	drain := func(it *fun.Iterator[int]) {
		i := 0
		for {
			v, e := it.ReadOne(ctx)
			if e != nil {
				if e != io.EOF {
					err = e
				}
				break
			}
			s.add(v)
			y(i)
			i++
		}
		if e := it.Close(); e != nil && err == nil {
			err = e
		}
	}
	switch c.Construct {
	case "Split":
		outs := fun.SliceIterator(in).Split(w)
		var wg sync.WaitGroup
		for _, o := range outs {
			wg.Add(1)
			go func(o *fun.Iterator[int]) {
				defer wg.Done()
				i := 0
				for {
					v, e := o.ReadOne(ctx)
					if e != nil {
						return
					}
					s.add(v)
					y(i)
					i++
				}
			}(o)
		}
		wg.Wait()
	case "ProcessParallel":
		err = fun.SliceIterator(in).ProcessParallel(func(_ context.Context, v int) error { y(v); s.add(v); return nil }, c.workers(w)).Run(ctx)
	case "ParallelForEach":
		err = itertool.ParallelForEach(ctx, fun.SliceIterator(in), func(_ context.Context, v int) error { y(v); s.add(v); return nil }, c.workers(w))
	case "itertool.Worker":
		ops := make([]fun.Operation, len(in))
		for i, v := range in {
			v := v
			ops[i] = func(context.Context) { y(v); s.add(v) }
		}
		err = itertool.Worker(ctx, fun.SliceIterator(ops), c.workers(w))
	case "Map", "Map-ordered":
		if c.Construct == "Map-ordered" {
			w, ordered = 1, true
		}
		it := fun.Map(fun.SliceIterator(in), func(_ context.Context, v int) (int, error) { y(v); return v, nil }, c.workers(w))
		drain(it)
	case "Buffer":
		ordered = true
		drain(fun.SliceIterator(in).Buffer(w - 1))
	case "ParallelBuffer":
		drain(fun.SliceIterator(in).ParallelBuffer(w))
	case "MergeIterators":
		ordered = w == 1
		srcs := make([]*fun.Iterator[int], w)
		for i := range srcs {
			var part []int
			for j := i; j < len(in); j += w {
				part = append(part, in[j])
			}
			srcs[i] = fun.SliceIterator(part)
		}
		if c.Empties > 0 {
			// sources that end at once, before the later ones are even
			// started
			all := make([]*fun.Iterator[int], 0, c.Empties+len(srcs))
			for i := 0; i < c.Empties; i++ {
				all = append(all, fun.SliceIterator([]int{}))
			}
			srcs = append(all, srcs...)
			ordered = false
		}
		drain(fun.MergeIterators(srcs...))
	case "GenerateParallel":
		var idx atomic.Int64
		it := fun.Producer[int](func(context.Context) (int, error) {
			i := int(idx.Add(1)) - 1
			if i >= len(in) {
				return 0, io.EOF
			}
			y(i)
			return in[i], nil
		}).GenerateParallel(c.workers(w))
		drain(it)
	case "ChannelIterator-readers":
		ch := make(chan int, c.Buffered)
		go func() {
			for i, v := range in {
				y(i)
				ch <- v
			}
			close(ch)
		}()
		it := fun.ChannelIterator(ch)
		var wg sync.WaitGroup
		for r := 0; r < w; r++ {
			wg.Add(1)
			go func(r int) {
				defer wg.Done()
				for i := 0; ; i++ {
					v, e := it.ReadOne(ctx)
					if e != nil {
						return
					}
					s.add(v)
					y(i + r)
				}
			}(r)
		}
		wg.Wait()
	case "Split-Map-Merge":
		// fan out, transform each branch in parallel, fan in again
		outs := fun.SliceIterator(in).Split(w)
		mapped := make([]*fun.Iterator[int], len(outs))
		for i, o := range outs {
			mapped[i] = fun.Map(o, func(_ context.Context, v int) (int, error) { y(v); return v, nil }, fun.WorkerGroupConfNumWorkers(2))
		}
		drain(fun.MergeIterators(mapped...))
		ordered = false
	}
	if err != nil {
		return s.got, ordered, fmt.Sprintf("%s reported the error %v although nothing fails", c.Construct, err)
	}
	return s.got, ordered, ""
}

func compare(c *Case, got []int, ordered bool) string {
	in := input(c)
	if ordered {
		if fmt.Sprint(got) != fmt.Sprint(in) && !(len(got) == 0 && len(in) == 0) {
			return fmt.Sprintf("%s width %d: output %v, want the input order %v", c.Construct, c.Width, clip(got), clip(in))
		}
		return ""
	}
	a, b := append([]int{}, got...), append([]int{}, in...)
	sort.Ints(a)
	sort.Ints(b)
	if fmt.Sprint(a) == fmt.Sprint(b) {
		return ""
	}
	cnt := map[int]int{}
	for _, v := range b {
		cnt[v]++
	}
	for _, v := range a {
		cnt[v]--
	}
	var lost, extra []int
	for v, n := range cnt {
		for ; n > 0; n-- {
			lost = append(lost, v)
		}
		for ; n < 0; n++ {
			extra = append(extra, v)
		}
	}
	sort.Ints(lost)
	sort.Ints(extra)
	return fmt.Sprintf("%s width %d over %d items: lost %v, duplicated or invented %v", c.Construct, c.Width, c.N, clip(lost), clip(extra))
}

func clip(v []int) string {
	if len(v) > 24 {
		return fmt.Sprintf("%v… (%d values)", v[:24], len(v))
	}
	return fmt.Sprint(v)
}

// once runs the case with a termination watch.
func once(c *Case) string {
	type res struct {
		got     []int
		ordered bool
		why     string
	}
	ch := make(chan res, 1)
	go func() {
		g, o, w := runCase(c)
		ch <- res{g, o, w}
	}()
	select {
	case r := <-ch:
		if r.why != "" {
			return r.why
		}
		return compare(c, r.got, r.ordered)
	case <-time.After(4 * vkit.Limit()):
		return fmt.Sprintf("%s width %d over %d items did not finish within %v (nothing aborts the run)", c.Construct, c.Width, c.N, 4*vkit.Limit())
	}
}

func genCase(t *rapid.T) *Case {
	c := &Case{
		Construct: rapid.SampledFrom(constructs).Draw(t, "construct"),
		Width:     rapid.IntRange(1, 8).Draw(t, "width"),
		Dups:      rapid.IntRange(0, 3).Draw(t, "dups") == 0,
		Buffered:  rapid.IntRange(0, 3).Draw(t, "chanBuffer"),
		Yields:    rapid.SliceOfN(rapid.IntRange(0, 4), 1, 6).Draw(t, "yields"),
		Procs:     rapid.SampledFrom([]int{1, 2, 4, 16}).Draw(t, "gomaxprocs"),
	}
	if rapid.IntRange(0, 5).Draw(t, "wide") == 0 {
		c.Width = rapid.SampledFrom([]int{12, 16, 32, 64}).Draw(t, "wideWidth")
	}
	switch c.Construct {
	case "ProcessParallel", "ParallelForEach", "itertool.Worker", "Map", "Map-ordered", "GenerateParallel":
		c.WorkersVia = rapid.SampledFrom([]string{"option", "option", "set", "custom"}).Draw(t, "workersVia")
		if rapid.IntRange(0, 5).Draw(t, "nonPositive") == 0 {
			c.NonPositive = rapid.IntRange(1, 4).Draw(t, "nonPositiveBy")
			c.Width = 1 // the effective number of workers
		}
	}
	if c.Construct == "MergeIterators" {
		c.Empties = rapid.SampledFrom([]int{0, 0, 0, 1, 3, 30, 3000, 30000}).Draw(t, "leadingEmpties")
	}
	w := c.Width
	switch rapid.IntRange(0, 8).Draw(t, "nKind") {
	case 8:
		// long and fast: a hand-over that goes wrong once in several
		// thousand items (workers colliding in a source that is not
		// safe for concurrent use) needs volume, not yields
		c.N = rapid.IntRange(5000, 60000).Draw(t, "longN")
		c.Yields = []int{0}
	case 0:
		c.N = 0
	case 1:
		c.N = 1
	case 2:
		c.N = 2
	case 3:
		c.N = w - 1
	case 4:
		c.N = w
	case 5:
		c.N = w + 1
	case 6:
		c.N = rapid.IntRange(0, 40).Draw(t, "n")
	default:
		c.N = rapid.IntRange(0, 300).Draw(t, "n")
	}
	return c
}

func TestExactlyOnce(t *testing.T) {
	var rc Case
	if ok, err := vkit.ReplayCase(tFan, &rc); err != nil {
		t.Fatal(err)
	} else if ok {
		for i := 0; i < 200; i++ {
			if why := once(&rc); why != "" {
				vkit.Fail(t, tFan, "C01:"+rc.Construct, rc, "%s (repetition %d)", why, i)
			}
		}
		return
	}
	reps := vkit.Pick(3, 8)
	rapid.Check(t, func(t *rapid.T) {
		if vkit.AlreadyFailed(tFan) {
			return
		}
		c := genCase(t)
		for i := 0; i < reps; i++ {
			if why := once(c); why != "" {
				vkit.Fail(t, tFan, "C01:"+c.Construct, *c, "%s (repetition %d)", why, i)
			}
		}
		nk := "n>width"
		switch {
		case c.N == 0:
			nk = "n=0"
		case c.N == 1:
			nk = "n=1"
		case c.N <= c.Width:
			nk = "n<=width"
		case c.N >= 5000:
			nk = "n>=5000"
		}
		vkit.CaseN(tFan, vkit.Hash(*c), reps, c.N >= 2 && (c.Width >= 2 || c.Construct == "Buffer" || c.Construct == "Split-Map-Merge"), []string{"construct:" + c.Construct, nk, fmt.Sprintf("width:%d", c.Width)}, func() any { return *c })
	})
}
