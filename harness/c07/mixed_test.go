package c07

import (
	"context"
	"fmt"
	"runtime"
	"sort"
	"sync"
	"sync/atomic"
	"testing"
	"time"

	"github.com/tychoish/fun/pubsub"
	"pgregory.net/rapid"

	"verif/harness/vkit"
)

// ---------------------------------------------------------------------
// producers and consumers blocked on one container at the same time

// Producers are parked on a full container; consumers then take everything
// through the blocking pops.  Every hand-over crosses both conditions: a
// pop frees a slot and wakes a producer, whose add makes the container
// non-empty again and has to wake a consumer that parked in between.  At
// the end every item has reached a consumer and nobody is blocked.

const tHandoff = "TestProducerConsumerHandoff"

type handoffCase struct {
	Kind      string `json:"kind"` // queue | queue-distributor | deque | deque-distributor
	Capacity  int    `json:"capacity"`
	Producers int    `json:"producers"`
	Consumers int    `json:"consumers"`
	Yields    []int  `json:"yields"`
	Procs     int    `json:"gomaxprocs"`
}

func runHandoff(c *handoffCase) (key, why string) {
	finished, stuck := vkit.Bounded(12*vkit.Limit(), func() { key, why = runHandoffInner(c) })
	if !finished {
		return "hang", fmt.Sprintf("the scenario has not ended after %v:\n%s", 12*vkit.Limit(), stuck)
	}
	return key, why
}

func runHandoffInner(c *handoffCase) (string, string) {
	if c.Procs > 0 {
		old := runtime.GOMAXPROCS(c.Procs)
		defer runtime.GOMAXPROCS(old)
	}
	limit := vkit.Limit()
	b := mkBox(c.Kind, c.Capacity)
	for i := 0; i < c.Capacity; i++ {
		if err := b.add(0, 1000+i); err != nil {
			return "setup", fmt.Sprintf("filling the container to its capacity %d failed at %d: %v", c.Capacity, i, err)
		}
	}
	base := parked()
	pctx, pcancel := context.WithCancel(context.Background())
	cctx, ccancel := context.WithCancel(context.Background())
	var pwg, cwg sync.WaitGroup
	var pdone atomic.Int64
	for i := 0; i < c.Producers; i++ {
		pwg.Add(1)
		go func(i int) {
			defer pwg.Done()
			if err := b.waitPush(pctx, 0, 5000+i); err == nil {
				pdone.Add(1)
			}
		}(i)
	}
	defer func() {
		pcancel()
		ccancel()
		b.close()
		done := make(chan struct{})
		go func() { pwg.Wait(); cwg.Wait(); close(done) }()
		select {
		case <-done:
		case <-time.After(limit):
		}
	}()
	if !vkit.Eventually(limit, func() bool { return parked()-base >= c.Producers }) {
		return "setup", fmt.Sprintf("only %d of %d producers parked on the full container", parked()-base, c.Producers)
	}
	var mu sync.Mutex
	var got []int
	for i := 0; i < c.Consumers; i++ {
		cwg.Add(1)
		go func(i int) {
			defer cwg.Done()
			for n := 0; ; n++ {
				vkit.Yield(c.Yields[(i+n)%len(c.Yields)])
				v, err := b.waitPop(cctx, 0)
				if err != nil {
					return
				}
				mu.Lock()
				got = append(got, v)
				mu.Unlock()
			}
		}(i)
	}
	want := c.Capacity + c.Producers
	count := func() int { mu.Lock(); defer mu.Unlock(); return len(got) }
	if !vkit.Eventually(limit, func() bool { return count() == want && int(pdone.Load()) == c.Producers }) {
		return "handoff", fmt.Sprintf("at quiescence: %d of %d items have reached the consumers, %d of %d producers have completed, the container holds %d of %d items, %d operations are parked - every consumer keeps asking and nothing was closed or cancelled", count(), want, pdone.Load(), c.Producers, b.length(), c.Capacity, parked()-base)
	}
	mu.Lock()
	defer mu.Unlock()
	sort.Ints(got)
	for i := 1; i < len(got); i++ {
		if got[i] == got[i-1] {
			return "twice", fmt.Sprintf("item %d reached the consumers twice: %v", got[i], got)
		}
	}
	return "", ""
}

func TestProducerConsumerHandoff(t *testing.T) {
	var rc handoffCase
	if ok, err := vkit.ReplayCase(tHandoff, &rc); err != nil {
		t.Fatal(err)
	} else if ok {
		for i := 0; i < 50; i++ {
			if k, why := runHandoff(&rc); why != "" {
				vkit.Fail(t, tHandoff, "C07:handoff/"+rc.Kind+"/"+k, rc, "%s (repetition %d)", why, i)
			}
		}
		return
	}
	reps := vkit.Pick(4, 10)
	rapid.Check(t, func(t *rapid.T) {
		if vkit.AlreadyFailed(tHandoff) {
			return
		}
		c := &handoffCase{
			Kind:      rapid.SampledFrom([]string{"queue", "queue-distributor", "queue-distributor", "deque", "deque-distributor"}).Draw(t, "kind"),
			Capacity:  rapid.IntRange(1, 3).Draw(t, "capacity"),
			Producers: rapid.IntRange(1, 5).Draw(t, "producers"),
			Consumers: rapid.IntRange(1, 3).Draw(t, "consumers"),
			Yields:    rapid.SliceOfN(rapid.IntRange(0, 3), 1, 4).Draw(t, "yields"),
			Procs:     rapid.SampledFrom([]int{1, 2, 4, 16}).Draw(t, "gomaxprocs"),
		}
		for i := 0; i < reps; i++ {
			if k, why := runHandoff(c); why != "" {
				vkit.Fail(t, tHandoff, "C07:handoff/"+c.Kind+"/"+k, *c, "%s (repetition %d)", why, i)
			}
		}
		vkit.CaseN(tHandoff, vkit.Hash(*c), reps, c.Producers >= 2, []string{"kind:" + c.Kind, fmt.Sprintf("capacity:%d", c.Capacity)}, func() any { return *c })
	})
}

// ---------------------------------------------------------------------
// containers whose capacity moves: soft quota and burst credit

// With QueueOptions (hard limit, soft quota, burst credit) the room a
// blocked producer waits for is not a constant.  The oracle needs no model
// of the quota rules: at quiescence, if a producer is still parked, an
// identical request made now must park as well - if the newcomer goes
// straight through, there was room, and the older request was blocked
// although its condition held.

const tQuota = "TestQuotaProducersProbe"

type quotaCase struct {
	Kind   string   `json:"kind"` // queue | deque
	Hard   int      `json:"hard_limit"`
	Soft   int      `json:"soft_quota"`
	Burst  int      `json:"burst_credit"`
	Script []string `json:"script"` // push | pop | waitpush
	Procs  int      `json:"gomaxprocs"`
}

// asleep counts the pubsub goroutines whose state is "waiting on a
// condition variable" (not merely: whose stack is inside Cond.Wait).
func asleep() int {
	return vkit.CountWhere("[sync.Cond.Wait", "sync.(*Cond).Wait", "github.com/tychoish/fun/pubsub.")
}

func runQuota(c *quotaCase) (key, why string) {
	finished, stuck := vkit.Bounded(12*vkit.Limit(), func() { key, why = runQuotaInner(c) })
	if !finished {
		return "hang", fmt.Sprintf("the scenario has not ended after %v:\n%s", 12*vkit.Limit(), stuck)
	}
	return key, why
}

func runQuotaInner(c *quotaCase) (string, string) {
	if c.Procs > 0 {
		old := runtime.GOMAXPROCS(c.Procs)
		defer runtime.GOMAXPROCS(old)
	}
	limit := vkit.Limit()
	opts := pubsub.QueueOptions{HardLimit: c.Hard, SoftQuota: c.Soft, BurstCredit: float64(c.Burst)}
	var push func(int) error
	var pop func() (int, bool)
	var waitPush func(context.Context, int) error
	var length func() int
	var closeBox func()
	if c.Kind == "queue" {
		q, err := pubsub.NewQueue[int](opts)
		if err != nil {
			return "", "" // not a valid configuration
		}
		push, pop, waitPush, length, closeBox = q.Add, q.Remove, q.BlockingAdd, q.Len, func() { _ = q.Close() }
	} else {
		dq, err := pubsub.NewDeque[int](pubsub.DequeOptions{QueueOptions: &opts})
		if err != nil {
			return "", ""
		}
		push, pop, waitPush, length, closeBox = dq.PushBack, dq.PopFront, dq.WaitPushBack, dq.Len, func() { _ = dq.Close() }
	}
	type prod struct {
		done   atomic.Bool
		cancel context.CancelFunc
	}
	var prods []*prod
	var wg sync.WaitGroup
	base := asleep()
	start := func(v int) *prod {
		p := &prod{}
		var ctx context.Context
		ctx, p.cancel = context.WithCancel(context.Background())
		wg.Add(1)
		go func() {
			defer wg.Done()
			_ = waitPush(ctx, v)
			p.done.Store(true)
		}()
		return p
	}
	defer func() {
		for _, p := range prods {
			p.cancel()
		}
		closeBox()
		done := make(chan struct{})
		go func() { wg.Wait(); close(done) }()
		select {
		case <-done:
		case <-time.After(limit):
		}
	}()
	pending := func(extra ...*prod) int {
		n := 0
		for _, p := range append(append([]*prod{}, prods...), extra...) {
			if !p.done.Load() {
				n++
			}
		}
		return n
	}
	// settled: every producer has either returned or is parked - really
	// parked: a goroutine that has been signalled but has not run yet
	// still shows the frames of Cond.Wait, only its state tells
	settled := func(extra ...*prod) bool {
		return vkit.Eventually(limit, func() bool {
			n := pending(extra...)
			return asleep()-base == n && asleep()-base == n && pending(extra...) == n
		})
	}
	for si, op := range c.Script {
		switch op {
		case "push":
			_ = push(100 + si)
		case "pop":
			_, _ = pop()
		case "waitpush":
			prods = append(prods, start(200+si))
		}
		if !settled() || pending() == 0 {
			continue
		}
		// somebody is parked: an identical request must park too
		probe := start(900 + si)
		if !settled(probe) {
			probe.cancel()
			continue
		}
		if probe.done.Load() && pending() > 0 {
			ln := length()
			return "producer", fmt.Sprintf("at quiescence after step %d (%s) %d producers were parked, yet an identical blocking push made at that moment went straight through (the container then held %d items): there was room, and the parked producers were not let in", si, op, pending(), ln)
		}
		probe.cancel()
		if !vkit.Eventually(limit, probe.done.Load) {
			return "cancel", fmt.Sprintf("after step %d: a parked blocking push has not returned %v after its context was cancelled", si, limit)
		}
	}
	return "", ""
}

func TestQuotaProducersProbe(t *testing.T) {
	var rc quotaCase
	if ok, err := vkit.ReplayCase(tQuota, &rc); err != nil {
		t.Fatal(err)
	} else if ok {
		for i := 0; i < 30; i++ {
			if k, why := runQuota(&rc); why != "" {
				vkit.Fail(t, tQuota, "C07:quota/"+rc.Kind+"/"+k, rc, "%s (repetition %d)", why, i)
			}
		}
		return
	}
	reps := vkit.Pick(2, 4)
	rapid.Check(t, func(t *rapid.T) {
		if vkit.AlreadyFailed(tQuota) {
			return
		}
		hard := rapid.IntRange(2, 6).Draw(t, "hard")
		c := &quotaCase{
			Kind:   rapid.SampledFrom([]string{"queue", "deque"}).Draw(t, "kind"),
			Hard:   hard,
			Soft:   rapid.IntRange(1, hard).Draw(t, "soft"),
			Burst:  rapid.IntRange(0, 3).Draw(t, "burst"),
			Script: rapid.SliceOfN(rapid.SampledFrom([]string{"push", "push", "pop", "waitpush", "waitpush"}), 2, 14).Draw(t, "script"),
			Procs:  rapid.SampledFrom([]int{1, 2, 4, 16}).Draw(t, "gomaxprocs"),
		}
		for i := 0; i < reps; i++ {
			if k, why := runQuota(c); why != "" {
				vkit.Fail(t, tQuota, "C07:quota/"+c.Kind+"/"+k, *c, "%s (repetition %d)", why, i)
			}
		}
		waits := 0
		for _, o := range c.Script {
			if o == "waitpush" {
				waits++
			}
		}
		vkit.CaseN(tQuota, vkit.Hash(*c), reps, waits >= 1 && c.Soft < c.Hard, []string{"kind:" + c.Kind, fmt.Sprintf("soft<hard:%v", c.Soft < c.Hard)}, func() any { return *c })
	})
}

// ---------------------------------------------------------------------
// "a call made while the condition already holds does not block", for
// contents that came about through forced pushes

// A bounded deque (capacity 1-3) is filled, then pushed into by force
// (which evicts at the other end) and partly popped again; as long as Len()
// says that there are items, WaitFront / WaitBack / Distributor.Receive
// return one at once, and once it is empty a waiter is released by the next
// (forced) push.

const tForce = "TestWaitAfterForcedPushes"

type forceCase struct {
	Capacity int      `json:"capacity"`
	Ops      []string `json:"ops"`  // force-back | force-front | push-back | push-front | pop-front | pop-back
	Wait     string   `json:"wait"` // front | back | receive | receive-nonblocking-distributor
	Procs    int      `json:"gomaxprocs"`
}

func runForce(c *forceCase) (string, string) {
	if c.Procs > 0 {
		old := runtime.GOMAXPROCS(c.Procs)
		defer runtime.GOMAXPROCS(old)
	}
	limit := vkit.Limit()
	dq, err := pubsub.NewDeque[int](pubsub.DequeOptions{Capacity: c.Capacity})
	if err != nil {
		return "harness", err.Error()
	}
	defer dq.Close()
	for i, op := range c.Ops {
		v := i + 1
		switch op {
		case "force-back":
			_ = dq.ForcePushBack(v)
		case "force-front":
			_ = dq.ForcePushFront(v)
		case "push-back":
			_ = dq.PushBack(v)
		case "push-front":
			_ = dq.PushFront(v)
		case "pop-front":
			_, _ = dq.PopFront()
		case "pop-back":
			_, _ = dq.PopBack()
		}
	}
	wait := dq.WaitFront
	switch c.Wait {
	case "back":
		wait = dq.WaitBack
	case "receive":
		wait = dq.Distributor().Receive
	case "receive-nonblocking-distributor":
		wait = dq.DistributorNonBlocking().Receive
	}
	ctx, cancel := context.WithCancel(context.Background())
	defer cancel()
	n := dq.Len()
	for k := 0; k < n; k++ {
		var werr error
		done := make(chan struct{})
		go func() { _, werr = wait(ctx); close(done) }()
		select {
		case <-done:
			if werr != nil {
				return "wait-error", fmt.Sprintf("after %v (capacity %d): Len() is %d but the blocking pop %d (%s) returned %v", c.Ops, c.Capacity, n-k, k, c.Wait, werr)
			}
		case <-time.After(limit):
			return "condition-holds", fmt.Sprintf("after %v (capacity %d): Len() is %d, yet the blocking pop (%s) does not return: a call made while its condition holds blocks", c.Ops, c.Capacity, n-k, c.Wait)
		}
	}
	// empty now: a waiter parks and the next forced push releases it
	done := make(chan struct{})
	var got int
	var werr error
	base := asleep()
	go func() { got, werr = wait(ctx); close(done) }()
	vkit.Eventually(limit, func() bool { return asleep() > base })
	_ = dq.ForcePushBack(777)
	select {
	case <-done:
		if werr != nil || got != 777 {
			return "wake", fmt.Sprintf("a waiter on the empty deque was released with (%d, %v) by ForcePushBack(777)", got, werr)
		}
	case <-time.After(limit):
		return "wake", fmt.Sprintf("after %v: a waiter (%s) parked on the empty deque is not released by ForcePushBack (Len %d)", c.Ops, c.Wait, dq.Len())
	}
	return "", ""
}

func TestWaitAfterForcedPushes(t *testing.T) {
	var rc forceCase
	if ok, err := vkit.ReplayCase(tForce, &rc); err != nil {
		t.Fatal(err)
	} else if ok {
		if k, why := runForce(&rc); why != "" {
			vkit.Fail(t, tForce, "C07:forced/"+k, rc, "%s", why)
		}
		return
	}
	rapid.Check(t, func(t *rapid.T) {
		if vkit.AlreadyFailed(tForce) {
			return
		}
		c := &forceCase{
			Capacity: rapid.IntRange(1, 3).Draw(t, "capacity"),
			Ops:      rapid.SliceOfN(rapid.SampledFrom([]string{"force-back", "force-back", "force-front", "force-front", "push-back", "push-front", "pop-front", "pop-back"}), 1, 10).Draw(t, "ops"),
			Wait:     rapid.SampledFrom([]string{"front", "back", "receive", "receive-nonblocking-distributor"}).Draw(t, "wait"),
			Procs:    rapid.SampledFrom([]int{1, 4, 16}).Draw(t, "gomaxprocs"),
		}
		if k, why := runForce(c); why != "" {
			vkit.Fail(t, tForce, "C07:forced/"+k, *c, "%s", why)
		}
		forced := 0
		for _, o := range c.Ops {
			if o == "force-back" || o == "force-front" {
				forced++
			}
		}
		vkit.Case(tForce, vkit.Hash(*c), forced > 0 && len(c.Ops) > c.Capacity, []string{fmt.Sprintf("capacity:%d", c.Capacity), "wait:" + c.Wait}, func() any { return *c })
	})
}

// ---------------------------------------------------------------------
// Close releases everything that is parked on the container - also the
// blocking iterators, which park at the end of a deque that is not empty

const tCloseIter = "TestCloseReleasesParkedIterators"

type closeIterCase struct {
	Kind    string `json:"kind"` // queue | deque | deque-reverse
	Items   int    `json:"items"`
	Readers int    `json:"readers"`
	Procs   int    `json:"gomaxprocs"`
}

func runCloseIter(c *closeIterCase) (string, string) {
	if c.Procs > 0 {
		old := runtime.GOMAXPROCS(c.Procs)
		defer runtime.GOMAXPROCS(old)
	}
	limit := vkit.Limit()
	ctx, cancel := context.WithCancel(context.Background())
	defer cancel()
	var mk func() func(context.Context) (int, error)
	var closeBox func() error
	if c.Kind == "queue" {
		q := pubsub.NewUnlimitedQueue[int]()
		for i := 0; i < c.Items; i++ {
			_ = q.Add(i)
		}
		mk, closeBox = func() func(context.Context) (int, error) { return q.Iterator().ReadOne }, q.Close
	} else {
		dq := pubsub.NewUnlimitedDeque[int]()
		for i := 0; i < c.Items; i++ {
			_ = dq.PushBack(i)
		}
		closeBox = dq.Close
		mk = func() func(context.Context) (int, error) { return dq.ProducerBlocking().Iterator().ReadOne }
		if c.Kind == "deque-reverse" {
			mk = func() func(context.Context) (int, error) { return dq.ProducerReverseBlocking().Iterator().ReadOne }
		}
	}
	base := asleep()
	var wg sync.WaitGroup
	ends := make([]error, c.Readers)
	for r := 0; r < c.Readers; r++ {
		read := mk()
		wg.Add(1)
		go func(r int) {
			defer wg.Done()
			for {
				if _, err := read(ctx); err != nil {
					ends[r] = err
					return
				}
			}
		}(r)
	}
	// every reader has read everything and is parked at the end
	if !vkit.Eventually(limit, func() bool { return asleep()-base >= c.Readers }) {
		return "harness", "the readers did not park"
	}
	_ = closeBox()
	done := make(chan struct{})
	go func() { wg.Wait(); close(done) }()
	select {
	case <-done:
	case <-time.After(limit):
		return "close", fmt.Sprintf("%d blocking iterators (%s) parked at the end of a container holding %d items have not all returned %v after Close", c.Readers, c.Kind, c.Items, limit)
	}
	return "", ""
}

func TestCloseReleasesParkedIterators(t *testing.T) {
	var rc closeIterCase
	if ok, err := vkit.ReplayCase(tCloseIter, &rc); err != nil {
		t.Fatal(err)
	} else if ok {
		for i := 0; i < 20; i++ {
			if k, why := runCloseIter(&rc); why != "" {
				vkit.Fail(t, tCloseIter, "C07:iterator/"+k, rc, "%s (repetition %d)", why, i)
			}
		}
		return
	}
	rapid.Check(t, func(t *rapid.T) {
		if vkit.AlreadyFailed(tCloseIter) {
			return
		}
		c := &closeIterCase{
			Kind:    rapid.SampledFrom([]string{"queue", "deque", "deque-reverse"}).Draw(t, "kind"),
			Items:   rapid.IntRange(0, 5).Draw(t, "items"),
			Readers: rapid.IntRange(1, 3).Draw(t, "readers"),
			Procs:   rapid.SampledFrom([]int{1, 4, 16}).Draw(t, "gomaxprocs"),
		}
		if k, why := runCloseIter(c); why != "" {
			vkit.Fail(t, tCloseIter, "C07:iterator/"+k, *c, "%s", why)
		}
		vkit.Case(tCloseIter, vkit.Hash(*c), c.Items > 0, []string{"kind:" + c.Kind}, func() any { return *c })
	})
}
