// Package c07 decides property C07: blocking queue / deque operations never
// miss a wake-up.
package c07

import (
	"context"
	"errors"
	"fmt"
	"runtime"
	"sync"
	"sync/atomic"
	"testing"
	"time"

	"github.com/tychoish/fun"
	"github.com/tychoish/fun/pubsub"
	"github.com/tychoish/fun/verifhook"
	"pgregory.net/rapid"

	"verif/harness/vkit"
)

func TestMain(m *testing.M) { vkit.Main(m) }

// box is the common surface of the containers under test.
type box struct {
	kind     string
	capacity int                        // 0: unlimited
	add      func(end int, v int) error // end 0: back, 1: front (deque)
	pop      func(end int) (int, bool)
	waitPop  func(ctx context.Context, end int) (int, error)
	waitPush func(ctx context.Context, end int, v int) error
	length   func() int
	close    func()
	iter     func(i int) *fun.Iterator[int] // a non-destructive blocking iterator (bystander sharing the condition variables)
}

var kinds = []string{"queue", "queue-distributor", "deque", "deque-distributor", "deque-distributor-nonblocking"}

func mkBox(kind string, capacity int) *box {
	b := &box{kind: kind, capacity: capacity}
	switch kind {
	case "queue", "queue-distributor":
		var q *pubsub.Queue[int]
		if capacity == 0 {
			q = pubsub.NewUnlimitedQueue[int]()
		} else {
			var err error
			// no burst above the quota: the capacity is fixed
			q, err = pubsub.NewQueue[int](pubsub.QueueOptions{HardLimit: capacity, SoftQuota: capacity})
			if err != nil {
				panic(err)
			}
		}
		d := q.Distributor()
		b.add = func(_ int, v int) error { return q.Add(v) }
		b.pop = func(int) (int, bool) { return q.Remove() }
		b.length = q.Len
		b.close = func() { _ = q.Close() }
		b.waitPush = func(ctx context.Context, _ int, v int) error { return q.BlockingAdd(ctx, v) }
		b.waitPop = func(ctx context.Context, _ int) (int, error) { return q.Wait(ctx) }
		b.iter = func(int) *fun.Iterator[int] { return q.Iterator() }
		if kind == "queue-distributor" {
			b.waitPop = func(ctx context.Context, _ int) (int, error) { return d.Receive(ctx) }
			b.add = func(_ int, v int) error { return d.Send(context.Background(), v) }
		}
	default:
		var dq *pubsub.Deque[int]
		if capacity == 0 {
			dq = pubsub.NewUnlimitedDeque[int]()
		} else {
			var err error
			dq, err = pubsub.NewDeque[int](pubsub.DequeOptions{Capacity: capacity})
			if err != nil {
				panic(err)
			}
		}
		b.add = func(end int, v int) error {
			if end == 1 {
				return dq.PushFront(v)
			}
			return dq.PushBack(v)
		}
		b.pop = func(end int) (int, bool) {
			if end == 1 {
				return dq.PopFront()
			}
			return dq.PopBack()
		}
		b.length = dq.Len
		b.close = func() { _ = dq.Close() }
		b.iter = func(i int) *fun.Iterator[int] {
			if i%2 == 1 {
				return dq.ProducerReverseBlocking().Iterator()
			}
			return dq.ProducerBlocking().Iterator()
		}
		b.waitPush = func(ctx context.Context, end int, v int) error {
			if end == 1 {
				return dq.WaitPushFront(ctx, v)
			}
			return dq.WaitPushBack(ctx, v)
		}
		b.waitPop = func(ctx context.Context, end int) (int, error) {
			if end == 1 {
				return dq.WaitFront(ctx)
			}
			return dq.WaitBack(ctx)
		}
		switch kind {
		case "deque-distributor":
			d := dq.Distributor()
			b.waitPop = func(ctx context.Context, _ int) (int, error) { return d.Receive(ctx) }
			b.waitPush = func(ctx context.Context, _ int, v int) error { return d.Send(ctx, v) }
		case "deque-distributor-nonblocking":
			d := dq.DistributorNonBlocking()
			b.waitPop = func(ctx context.Context, _ int) (int, error) { return d.Receive(ctx) }
		}
	}
	return b
}

// Act is one step of the enabling script.
type Act struct {
	Op     string `json:"op"`               // add | pop | close | cancel
	Then   string `json:"then,omitempty"`   // "close": the container is closed right after the burst, before anybody has reacted to it
	K      int    `json:"k,omitempty"`      // burst size
	End    int    `json:"end,omitempty"`    // which end (deque)
	Split  int    `json:"split,omitempty"`  // number of goroutines issuing the burst
	Target int    `json:"target,omitempty"` // waiter whose context is cancelled
	Yield  int    `json:"yield,omitempty"`
}

// Case is one generated scenario.
type Case struct {
	Kind     string `json:"kind"`
	Capacity int    `json:"capacity"` // 0: unlimited
	Role     string `json:"role"`     // consumers | producers
	Waiters  int    `json:"waiters"`
	Ends     []int  `json:"ends"`                // per waiter: the end it waits on (deque)
	Prefill  int    `json:"prefill"`             // consumers: items already present when the waiters start
	Iters    int    `json:"iterators,omitempty"` // bystanders: non-destructive blocking iterators parked at the tail before the waiters start
	WaitPark bool   `json:"wait_park"`           // let every waiter park before the script starts
	Procs    int    `json:"gomaxprocs"`
	Script   []Act  `json:"script"`
}

type waiter struct {
	ctx       context.Context
	cancel    context.CancelFunc
	done      atomic.Bool
	v         int
	err       error
	cancelled atomic.Bool
}

func parked() int { return vkit.CountWhere("sync.(*Cond).Wait", "github.com/tychoish/fun/pubsub.") }

const tWake = "TestWakeups"

// runCase executes the scenario once.  It returns a description of the
// violation, or "".
func runCase(c *Case) (key, why string) {
	// every step of the harness is a call that must not block (adds,
	// pops, Len, Close) or a bounded poll: a case that does not end within
	// many quiescence limits is stuck inside the library
	finished, stuck := vkit.Bounded(12*vkit.Limit(), func() { key, why = runCaseInner(c) })
	if !finished {
		return "hang", fmt.Sprintf("the scenario has not ended after %v: a call that never blocks by contract (Len / Close / a non-blocking add or pop) or a released waiter is stuck inside the library:\n%s", 12*vkit.Limit(), stuck)
	}
	return key, why
}

func runCaseInner(c *Case) (string, string) {
	if c.Procs > 0 {
		old := runtime.GOMAXPROCS(c.Procs)
		defer runtime.GOMAXPROCS(old)
	}
	limit := vkit.Limit()
	b := mkBox(c.Kind, c.Capacity)
	added := map[int]bool{}
	var amu sync.Mutex
	nextVal := 1000
	totalAdded := 0
	pops := 0
	closed := false

	// initial content
	switch c.Role {
	case "consumers":
		for i := 0; i < c.Prefill; i++ {
			nextVal++
			if b.add(0, nextVal) == nil {
				added[nextVal] = true
				totalAdded++
			}
		}
	case "producers":
		for i := 0; i < c.Capacity; i++ {
			nextVal++
			if err := b.add(0, nextVal); err != nil {
				return "setup", fmt.Sprintf("filling the container to its capacity %d failed at %d: %v", c.Capacity, i, err)
			}
			added[nextVal] = true
			totalAdded++
		}
	}
	// bystanders: iterators that have read everything and are parked at
	// the tail before any waiter starts.  They wait on the same condition
	// variables as the producers / consumers, so a wake-up meant for a
	// waiter may be handed to one of them; they are not judged here (C20
	// does that), they only must not absorb somebody else's wake-up.
	var iwg sync.WaitGroup
	ictx, icancel := context.WithCancel(context.Background())
	if c.Iters > 0 {
		base0 := parked()
		for i := 0; i < c.Iters; i++ {
			it := b.iter(i)
			iwg.Add(1)
			go func() {
				defer iwg.Done()
				for {
					if _, err := it.ReadOne(ictx); err != nil {
						return
					}
				}
			}()
		}
		vkit.Eventually(limit, func() bool { return parked()-base0 >= c.Iters })
	}
	base := parked()
	ws := make([]*waiter, c.Waiters)
	var wg sync.WaitGroup
	for i := range ws {
		w := &waiter{}
		w.ctx, w.cancel = context.WithCancel(context.Background())
		ws[i] = w
		wg.Add(1)
		end := c.Ends[i%len(c.Ends)]
		val := 5000 + i
		go func() {
			defer wg.Done()
			if c.Role == "consumers" {
				w.v, w.err = b.waitPop(w.ctx, end)
			} else {
				w.v, w.err = val, b.waitPush(w.ctx, end, val)
			}
			w.done.Store(true)
		}()
	}
	defer func() {
		// release whatever is still blocked so that nothing leaks into
		// the next case
		for _, w := range ws {
			w.cancel()
		}
		icancel()
		b.close()
		waitDone := make(chan struct{})
		go func() { wg.Wait(); iwg.Wait(); close(waitDone) }()
		select {
		case <-waitDone:
		case <-time.After(limit):
		}
	}()
	blockedNow := func() int {
		n := 0
		for _, w := range ws {
			if !w.done.Load() {
				n++
			}
		}
		return n
	}
	// quiescent invariant of the statement
	check := func(after string) (string, string) {
		var why, key string
		ok := vkit.Eventually(limit, func() bool {
			why, key = "", ""
			nb := blockedNow()
			ln := b.length()
			for i, w := range ws {
				if !w.done.Load() && w.cancelled.Load() {
					why, key = fmt.Sprintf("waiter %d is still blocked although its context was cancelled", i), "cancel"
					return false
				}
			}
			if closed && nb > 0 {
				why, key = fmt.Sprintf("%d operations are still blocked after Close", nb), "close"
				return false
			}
			if c.Role == "consumers" && !closed && nb > 0 && ln > 0 {
				why, key = fmt.Sprintf("%d consumers are blocked while the container holds %d items", nb, ln), "consumer"
				return false
			}
			if c.Role == "producers" && !closed && nb > 0 && ln < c.Capacity {
				why, key = fmt.Sprintf("%d producers are blocked while the container holds %d of %d items", nb, ln, c.Capacity), "producer"
				return false
			}
			return true
		})
		if !ok {
			return key, fmt.Sprintf("at quiescence after %s: %s", after, why)
		}
		return "", ""
	}
	if c.WaitPark {
		// every waiter is either parked on a condition variable or has
		// returned (the condition held when it was called)
		vkit.Eventually(limit, func() bool { return parked()-base+c.Waiters-blockedNow() >= c.Waiters })
		if k, why := check("the waiters started"); why != "" {
			return k, why
		}
	}
	for si, a := range c.Script {
		vkit.Yield(a.Yield)
		desc := fmt.Sprintf("step %d (%s k=%d %s)", si, a.Op, a.K, a.Then)
		switch a.Op {
		case "add", "pop":
			split := a.Split
			if split < 1 {
				split = 1
			}
			var bw sync.WaitGroup
			per := make([][]int, split)
			for i := 0; i < a.K; i++ {
				nextVal++
				per[i%split] = append(per[i%split], nextVal)
			}
			for _, vals := range per {
				bw.Add(1)
				go func(vals []int) {
					defer bw.Done()
					for _, v := range vals {
						if a.Op == "add" {
							if b.add(a.End, v) == nil {
								amu.Lock()
								added[v] = true
								totalAdded++
								amu.Unlock()
							}
						} else if got, ok := b.pop(a.End); ok {
							amu.Lock()
							pops++
							if !added[got] && !(got >= 5000 && got < 5000+c.Waiters) {
								added[-got] = true // remembered as a bogus value
							}
							amu.Unlock()
						}
					}
				}(vals)
			}
			bw.Wait()
			if a.Then == "close" {
				b.close()
				closed = true
			}
		case "close":
			b.close()
			closed = true
		case "cancel":
			w := ws[a.Target%len(ws)]
			w.cancelled.Store(true)
			w.cancel()
		}
		if k, why := check(desc); why != "" {
			return k, why
		}
	}
	// conservation at the end: nothing lost, duplicated or invented.  A
	// waiter whose operation has already taken effect in the container
	// may not have stored its done flag yet, so the balance is polled
	// like every other observation at quiescence (§3.3): it is a
	// violation only if it never adds up.
	conservation := func() (string, string) {
		seen := map[int]bool{}
		got := 0
		completed := 0
		for i, w := range ws {
			if !w.done.Load() {
				continue
			}
			switch {
			case w.err == nil && c.Role == "consumers":
				if !added[w.v] {
					return "value", fmt.Sprintf("waiter %d received %d, which was never added", i, w.v)
				}
				if seen[w.v] {
					return "value", fmt.Sprintf("value %d was received twice", w.v)
				}
				seen[w.v] = true
				got++
			case w.err == nil:
				completed++
			case errors.Is(w.err, pubsub.ErrQueueClosed):
				if !closed {
					return "result", fmt.Sprintf("waiter %d returned ErrQueueClosed but the container was never closed", i)
				}
			case errors.Is(w.err, context.Canceled):
				if !w.cancelled.Load() {
					return "result", fmt.Sprintf("waiter %d returned a context error but its context is live", i)
				}
			default:
				return "result", fmt.Sprintf("waiter %d returned the unexpected error %v", i, w.err)
			}
		}
		for k := range added {
			if k < 0 {
				return "value", fmt.Sprintf("the harness popped %d, which was never added", -k)
			}
		}
		if c.Kind != "deque-distributor-nonblocking" {
			if want := totalAdded + completed - got - pops; b.length() != want {
				return "conservation", fmt.Sprintf("Len()=%d at the end; %d added + %d blocked producers completed - %d received - %d popped = %d", b.length(), totalAdded, completed, got, pops, want)
			}
		}
		return "", ""
	}
	var ckey, cwhy string
	vkit.Eventually(limit, func() bool { ckey, cwhy = conservation(); return cwhy == "" })
	if cwhy != "" {
		return ckey, cwhy
	}
	return "", ""
}

func genCase(t *rapid.T) *Case {
	c := &Case{
		Kind:     rapid.SampledFrom(kinds).Draw(t, "kind"),
		Role:     rapid.SampledFrom([]string{"consumers", "consumers", "producers"}).Draw(t, "role"),
		Waiters:  rapid.IntRange(1, 5).Draw(t, "waiters"),
		WaitPark: rapid.IntRange(0, 3).Draw(t, "waitPark") != 0,
		Procs:    rapid.SampledFrom([]int{1, 2, 4, 16}).Draw(t, "gomaxprocs"),
	}
	if c.Kind == "deque-distributor-nonblocking" {
		c.Role = "consumers" // its Send never blocks
	}
	if c.Role == "producers" {
		c.Capacity = rapid.IntRange(1, 6).Draw(t, "capacity")
	} else if rapid.Bool().Draw(t, "limited") {
		c.Capacity = rapid.IntRange(1, 6).Draw(t, "capacity")
	}
	for i := 0; i < c.Waiters; i++ {
		c.Ends = append(c.Ends, rapid.IntRange(0, 1).Draw(t, "end"))
	}
	if rapid.IntRange(0, 2).Draw(t, "bystanders") == 0 {
		c.Iters = rapid.IntRange(1, 2).Draw(t, "iterators")
	}
	if c.Role == "consumers" && rapid.IntRange(0, 3).Draw(t, "prefill") == 0 {
		c.Prefill = rapid.IntRange(1, 2*c.Waiters).Draw(t, "prefillN")
	}
	n := rapid.IntRange(1, 6).Draw(t, "steps")
	for i := 0; i < n; i++ {
		a := Act{Yield: rapid.IntRange(0, 4).Draw(t, "yield")}
		switch rapid.IntRange(0, 9).Draw(t, "act") {
		case 0:
			a.Op = "close"
		case 1, 2:
			a.Op, a.Target = "cancel", rapid.IntRange(0, c.Waiters-1).Draw(t, "target")
		default:
			a.K = rapid.IntRange(1, 2*c.Waiters).Draw(t, "burst")
			a.End = rapid.IntRange(0, 1).Draw(t, "end")
			a.Split = rapid.IntRange(1, 2).Draw(t, "split")
			if c.Role == "consumers" {
				a.Op = "add"
			} else {
				a.Op = "pop"
				if (c.Kind == "queue" || c.Kind == "queue-distributor") && a.K > c.Capacity/2 {
					// keep the queue at least half full: below that its
					// soft quota (and with it the capacity) shrinks
					a.K = c.Capacity / 2
					if a.K == 0 {
						a.K = 1
					}
				}
			}
		}
		if (a.Op == "add" || a.Op == "pop") && rapid.IntRange(0, 7).Draw(t, "thenClose") == 0 {
			a.Then = "close"
		}
		c.Script = append(c.Script, a)
		if a.Op == "close" || a.Then == "close" {
			break
		}
	}
	return c
}

func classes(c *Case) (cls []string, nontrivial bool) {
	cls = []string{"kind:" + c.Kind, "role:" + c.Role, fmt.Sprintf("waiters:%d", c.Waiters), fmt.Sprintf("park-first:%v", c.WaitPark)}
	maxBurst, racing := 0, false
	for _, a := range c.Script {
		if a.K > maxBurst {
			maxBurst = a.K
		}
		if a.Op == "close" || a.Op == "cancel" {
			racing = true
			cls = append(cls, "has-"+a.Op)
		}
		if a.Then == "close" {
			racing = true
			cls = append(cls, "burst-then-close")
		}
	}
	if maxBurst >= 2 {
		cls = append(cls, "burst>=2")
	}
	if c.Iters > 0 {
		cls = append(cls, "bystander-iterators")
	}
	return cls, (c.Waiters >= 2 && maxBurst >= 2) || (racing && !c.WaitPark) || racing || (c.Iters > 0 && maxBurst >= 1)
}

func TestWakeups(t *testing.T) {
	var rc Case
	if ok, err := vkit.ReplayCase(tWake, &rc); err != nil {
		t.Fatal(err)
	} else if ok {
		for i := 0; i < 30; i++ {
			if k, why := runCase(&rc); why != "" {
				vkit.Fail(t, tWake, "C07:"+rc.Kind+"/"+rc.Role+"/"+k, rc, "%s (repetition %d)", why, i)
			}
		}
		return
	}
	reps := vkit.Pick(2, 5)
	rapid.Check(t, func(t *rapid.T) {
		if vkit.AlreadyFailed(tWake) {
			return
		}
		c := genCase(t)
		for i := 0; i < reps; i++ {
			if k, why := runCase(c); why != "" {
				vkit.Fail(t, tWake, "C07:"+c.Kind+"/"+c.Role+"/"+k, *c, "%s (repetition %d)", why, i)
			}
		}
		cls, nt := classes(c)
		vkit.CaseN(tWake, vkit.Hash(*c), reps, nt, cls, func() any { return *c })
	})
}

// ---------------------------------------------------------------------
// hook variant: the context of a waiter is cancelled exactly between its
// last look at the predicate and its parking on the condition variable

const tHook = "TestCancelInParkWindow"

type hookCase struct {
	Kind   string `json:"kind"`
	Role   string `json:"role"`
	End    int    `json:"end"`
	Others int    `json:"others"` // further waiters parked beforehand
	Procs  int    `json:"gomaxprocs"`
}

func runHook(c *hookCase) string {
	if c.Procs > 0 {
		old := runtime.GOMAXPROCS(c.Procs)
		defer runtime.GOMAXPROCS(old)
	}
	limit := vkit.Limit()
	capacity := 0
	if c.Role == "producers" {
		capacity = 2
	}
	b := mkBox(c.Kind, capacity)
	for i := 0; i < capacity; i++ {
		_ = b.add(0, i+1)
	}
	call := func(ctx context.Context, v int) error {
		if c.Role == "consumers" {
			_, err := b.waitPop(ctx, c.End)
			return err
		}
		return b.waitPush(ctx, c.End, v)
	}
	base := parked()
	octx, ocancel := context.WithCancel(context.Background())
	var owg sync.WaitGroup
	for i := 0; i < c.Others; i++ {
		owg.Add(1)
		go func(i int) { defer owg.Done(); _ = call(octx, 100+i) }(i)
	}
	vkit.Eventually(limit, func() bool { return parked()-base >= c.Others })

	ctx, cancel := context.WithCancel(context.Background())
	var armed atomic.Bool
	armed.Store(true)
	verifhook.Set("pubsub.wait.before-cond-wait", func() {
		// runs on the waiter's goroutine with the container's mutex held
		if armed.CompareAndSwap(true, false) {
			cancel()
			// give the goroutine that broadcasts on cancellation every
			// chance to run before the waiter parks
			for i := 0; i < 50; i++ {
				runtime.Gosched()
			}
			time.Sleep(time.Millisecond)
		}
	})
	defer verifhook.Clear()
	done := make(chan error, 1)
	go func() { done <- call(ctx, 999) }()
	var res string
	select {
	case err := <-done:
		if !errors.Is(err, context.Canceled) {
			res = fmt.Sprintf("the call returned %v, want its context error", err)
		}
	case <-time.After(limit):
		res = fmt.Sprintf("the call is still blocked %v after its context was cancelled (the cancellation fell between the predicate check and cond.Wait)", limit)
	}
	verifhook.Clear()
	cancel()
	ocancel()
	b.close()
	wait := make(chan struct{})
	go func() { owg.Wait(); close(wait) }()
	select {
	case <-wait:
	case <-time.After(limit):
	}
	if armed.Load() && res == "" {
		res = "the yield point pubsub.wait.before-cond-wait was never reached (is the harness built with -tags verif?)"
	}
	return res
}

func TestCancelInParkWindow(t *testing.T) {
	var rc hookCase
	if ok, err := vkit.ReplayCase(tHook, &rc); err != nil {
		t.Fatal(err)
	} else if ok {
		if why := runHook(&rc); why != "" {
			vkit.Fail(t, tHook, "C07:park-window/"+rc.Kind+"/"+rc.Role, rc, "%s", why)
		}
		return
	}
	rapid.Check(t, func(t *rapid.T) {
		if vkit.AlreadyFailed(tHook) {
			return
		}
		c := &hookCase{
			Kind:   rapid.SampledFrom([]string{"queue", "queue-distributor", "deque", "deque-distributor"}).Draw(t, "kind"),
			Role:   rapid.SampledFrom([]string{"consumers", "producers"}).Draw(t, "role"),
			End:    rapid.IntRange(0, 1).Draw(t, "end"),
			Others: rapid.IntRange(0, 2).Draw(t, "others"),
			Procs:  rapid.SampledFrom([]int{1, 2, 16}).Draw(t, "gomaxprocs"),
		}
		if c.Kind == "queue-distributor" {
			c.Role = "consumers" // its Send is the non-blocking Add
		}
		if why := runHook(c); why != "" {
			vkit.Fail(t, tHook, "C07:park-window/"+c.Kind+"/"+c.Role, *c, "%s", why)
		}
		vkit.Case(tHook, vkit.Hash(*c), true, []string{"kind:" + c.Kind, "role:" + c.Role}, func() any { return *c })
	})
}
