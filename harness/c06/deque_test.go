// Package c06 decides property C06: pubsub.Deque is a linearizable bounded
// double-ended queue.
package c06

import (
	"context"
	"errors"
	"fmt"
	"sort"
	"testing"
	"time"

	"github.com/anishathalye/porcupine"
	"github.com/tychoish/fun/pubsub"
	"pgregory.net/rapid"

	"verif/harness/pmodel"
	"verif/harness/vkit"
)

func TestMain(m *testing.M) { vkit.Main(m) }

// Opts selects the deque flavour.
type Opts struct {
	Kind     string `json:"kind"` // unlimited | capacity | quota
	Capacity int    `json:"capacity,omitempty"`
	Hard     int    `json:"hard,omitempty"`
	Soft     int    `json:"soft,omitempty"`
	Credit4  int    `json:"credit_quarters,omitempty"`
}

func (o Opts) Make() (*pubsub.Deque[int], pmodel.State) {
	var dq *pubsub.Deque[int]
	var err error
	var st pmodel.State
	switch o.Kind {
	case "unlimited":
		dq = pubsub.NewUnlimitedDeque[int]()
		st.T = pmodel.Tracker{Kind: pmodel.Unlimited}
	case "capacity":
		dq, err = pubsub.NewDeque[int](pubsub.DequeOptions{Capacity: o.Capacity})
		st.T = pmodel.Tracker{Kind: pmodel.Capacity, Hard: o.Capacity}
	default:
		dq, err = pubsub.NewDeque[int](pubsub.DequeOptions{QueueOptions: &pubsub.QueueOptions{HardLimit: o.Hard, SoftQuota: o.Soft, BurstCredit: float64(o.Credit4) / 4}})
		st.T = pmodel.NewQuota(o.Hard, o.Soft, float64(o.Credit4)/4)
	}
	if err != nil {
		panic(err)
	}
	return dq, st
}

func GenOpts(t *rapid.T) Opts {
	switch rapid.IntRange(0, 3).Draw(t, "kind") {
	case 0:
		return Opts{Kind: "unlimited"}
	case 1, 2:
		return Opts{Kind: "capacity", Capacity: rapid.IntRange(1, 5).Draw(t, "capacity")}
	}
	hard := rapid.IntRange(1, 6).Draw(t, "hard")
	return Opts{Kind: "quota", Hard: hard, Soft: rapid.IntRange(0, hard).Draw(t, "soft"), Credit4: rapid.IntRange(0, 10).Draw(t, "credit4")}
}

func errName(err error) string {
	switch {
	case err == nil:
		return ""
	case errors.Is(err, pubsub.ErrQueueFull):
		return "full"
	case errors.Is(err, pubsub.ErrQueueNoCredit):
		return "credit"
	case errors.Is(err, pubsub.ErrQueueClosed):
		return "closed"
	case errors.Is(err, context.Canceled), errors.Is(err, context.DeadlineExceeded):
		return "ctx"
	}
	return "other:" + err.Error()
}

func blocking(s vkit.Step) bool {
	switch s.Op {
	case "WaitFront", "WaitBack", "WaitPushFront", "WaitPushBack":
		return true
	}
	return false
}

func exec(dq *pubsub.Deque[int]) func(int, vkit.Step, context.Context) vkit.Result {
	return func(_ int, s vkit.Step, ctx context.Context) vkit.Result {
		pop := func(v int, ok bool) vkit.Result { return vkit.Result{V: v, OK: ok} }
		wait := func(v int, err error) vkit.Result { return vkit.Result{V: v, OK: err == nil, Err: errName(err)} }
		switch s.Op {
		case "PushFront":
			return vkit.Result{Err: errName(dq.PushFront(s.V))}
		case "PushBack":
			return vkit.Result{Err: errName(dq.PushBack(s.V))}
		case "ForcePushFront":
			return vkit.Result{Err: errName(dq.ForcePushFront(s.V))}
		case "ForcePushBack":
			return vkit.Result{Err: errName(dq.ForcePushBack(s.V))}
		case "WaitPushFront":
			return vkit.Result{Err: errName(dq.WaitPushFront(ctx, s.V))}
		case "WaitPushBack":
			return vkit.Result{Err: errName(dq.WaitPushBack(ctx, s.V))}
		case "PopFront":
			return pop(dq.PopFront())
		case "PopBack":
			return pop(dq.PopBack())
		case "WaitFront":
			return wait(dq.WaitFront(ctx))
		case "WaitBack":
			return wait(dq.WaitBack(ctx))
		case "Len":
			return vkit.Result{V: dq.Len()}
		case "Close":
			return vkit.Result{Err: errName(dq.Close())}
		}
		panic("unknown op " + s.Op)
	}
}

func push(st pmodel.State, front bool, v int) pmodel.State {
	if front {
		st.Items = st.Items.PushFront(v)
	} else {
		st.Items = st.Items.PushBack(v)
	}
	return st
}

func pop(st pmodel.State, front bool) (int, pmodel.State) {
	var v int
	if front {
		v, st.Items = st.Items.PopFront()
	} else {
		v, st.Items = st.Items.PopBack()
	}
	st.T = st.T.Remove()
	return v, st
}

// step is the sequential specification of the deque.
func step(st pmodel.State, in vkit.Step, out vkit.Result) (bool, pmodel.State) {
	front := in.Op == "PushFront" || in.Op == "ForcePushFront" || in.Op == "WaitPushFront" || in.Op == "PopFront" || in.Op == "WaitFront"
	switch in.Op {
	case "PushFront", "PushBack":
		if st.Closed {
			return out.Err == "closed", st
		}
		nt, err := st.T.Add()
		switch err {
		case pmodel.ErrFull:
			return out.Err == "full", st
		case pmodel.ErrCredit:
			return out.Err == "credit", st
		}
		st.T = nt
		return out.Err == "", push(st, front, in.V)
	case "ForcePushFront", "ForcePushBack":
		if st.Closed {
			return out.Err == "closed", st
		}
		if st.T.Cap() == st.T.N && st.T.N > 0 {
			// evict exactly one item from the opposite end
			_, st = pop(st, !front)
		}
		nt, err := st.T.Add()
		switch err {
		case pmodel.ErrFull:
			return out.Err == "full", st
		case pmodel.ErrCredit:
			return out.Err == "credit", st
		}
		st.T = nt
		return out.Err == "", push(st, front, in.V)
	case "WaitPushFront", "WaitPushBack":
		switch out.Err {
		case "ctx":
			return out.Cancelled, st
		case "closed":
			return st.Closed, st
		case "":
			if st.Closed || st.T.Cap() <= st.T.N {
				return false, st
			}
			nt, err := st.T.Add()
			if err != nil {
				return false, st
			}
			st.T = nt
			return true, push(st, front, in.V)
		}
		return false, st
	case "PopFront", "PopBack":
		if st.Closed || st.T.N == 0 {
			return !out.OK, st
		}
		v, next := pop(st, front)
		return out.OK && out.V == v, next
	case "WaitFront", "WaitBack":
		switch out.Err {
		case "ctx":
			return out.Cancelled, st
		case "closed":
			return st.Closed, st
		case "":
			if st.Closed || st.T.N == 0 {
				return false, st
			}
			v, next := pop(st, front)
			return out.V == v, next
		}
		return false, st
	case "Len":
		ok := out.V == st.T.N
		switch st.T.Kind {
		case pmodel.Capacity, pmodel.Quota:
			ok = ok && out.V <= st.T.Hard
		}
		return ok, st
	case "Close":
		st.Closed = true
		return out.Err == "", st
	}
	return false, st
}

func describe(in, out any) string {
	s, r := in.(vkit.Step), out.(vkit.Result)
	switch s.Op {
	case "PushFront", "PushBack", "ForcePushFront", "ForcePushBack", "WaitPushFront", "WaitPushBack":
		return fmt.Sprintf("%s(%d)->%q cancelled=%v", s.Op, s.V, r.Err, r.Cancelled)
	case "Len":
		return fmt.Sprintf("Len->%d", r.V)
	}
	return fmt.Sprintf("%s->(%d,%v,%q) cancelled=%v", s.Op, r.V, r.OK, r.Err, r.Cancelled)
}

// ---------------------------------------------------------------------
// sequential differential

const tSeq = "TestDequeSequential"

type seqCase struct {
	Opts  Opts        `json:"opts"`
	Steps []vkit.Step `json:"steps"`
}

type seqRun struct {
	t       vkit.TB
	c       *seqCase
	dq      *pubsub.Deque[int]
	ex      func(int, vkit.Step, context.Context) vkit.Result
	st      pmodel.State
	cctx    context.Context
	reject  int
	evict   int
	bothEnd [2]bool
}

func newSeqRun(t vkit.TB, c *seqCase) *seqRun {
	r := &seqRun{t: t, c: c}
	r.dq, r.st = c.Opts.Make()
	r.ex = exec(r.dq)
	ctx, cancel := context.WithCancel(context.Background())
	cancel()
	r.cctx = ctx
	return r
}

func (r *seqRun) apply(s vkit.Step) {
	ctx := context.Background()
	if s.Ctx == 0 {
		ctx = r.cctx
	}
	var out vkit.Result
	key := "C06:seq/" + s.Op
	// on one goroutine a call that does not return blocks for ever
	vkit.Watch(tSeq, key+"/blocks", vkit.Pick(20*time.Second, 60*time.Second), func() any { return r.c }, func() {
		vkit.Guard(r.t, tSeq, key, func() any { return r.c }, func() { out = r.ex(0, s, ctx) })
	})
	out.Cancelled = s.Ctx == 0
	ok, next := step(r.st, s, out)
	if !ok {
		vkit.Fail(r.t, tSeq, key, r.c, "%s is not a legal result in state %v", describe(s, out), r.st)
	}
	if out.Err == "full" || out.Err == "credit" || out.Err == "closed" {
		r.reject++
	}
	if (s.Op == "ForcePushFront" || s.Op == "ForcePushBack") && out.Err == "" && next.T.N == r.st.T.N {
		r.evict++
	}
	switch s.Op {
	case "PushFront", "PopFront", "WaitFront", "ForcePushFront", "WaitPushFront":
		r.bothEnd[0] = true
	case "PushBack", "PopBack", "WaitBack", "ForcePushBack", "WaitPushBack":
		r.bothEnd[1] = true
	}
	r.st = next
	if n := r.dq.Len(); n != r.st.T.N {
		vkit.Fail(r.t, tSeq, key, r.c, "after %s: Len()=%d, model %v", describe(s, out), n, r.st)
	}
	// the content, through the non-destructive iterators
	if !r.st.Closed {
		want := r.st.Items.Items()
		got, err := r.dq.Iterator().Slice(context.Background())
		if err != nil || fmt.Sprint(got) != fmt.Sprint(append([]int{}, want...)) && !(len(got) == 0 && len(want) == 0) {
			vkit.Fail(r.t, tSeq, key, r.c, "after %s: content front-to-back %v (%v), model %v", describe(s, out), got, err, want)
		}
		rv, err := r.dq.IteratorReverse().Slice(context.Background())
		if err != nil || len(rv) != len(want) {
			vkit.Fail(r.t, tSeq, key, r.c, "after %s: content back-to-front %v (%v), model %v", describe(s, out), rv, err, want)
		}
		for i := range rv {
			if rv[i] != want[len(want)-1-i] {
				vkit.Fail(r.t, tSeq, key, r.c, "after %s: content back-to-front %v, model %v", describe(s, out), rv, want)
			}
		}
	}
}

func TestDequeSequential(t *testing.T) {
	var rc seqCase
	if ok, err := vkit.ReplayCase(tSeq, &rc); err != nil {
		t.Fatal(err)
	} else if ok {
		r := newSeqRun(t, &rc)
		for _, s := range rc.Steps {
			r.apply(s)
		}
		return
	}
	rapid.Check(t, func(t *rapid.T) {
		c := &seqCase{Opts: GenOpts(t)}
		r := newSeqRun(t, c)
		next := 0
		do := func(s vkit.Step) { c.Steps = append(c.Steps, s); r.apply(s) }
		pushOp := func(op string) func(*rapid.T) {
			return func(*rapid.T) { next++; do(vkit.Step{Op: op, V: next, Ctx: -1}) }
		}
		waitPush := func(op string) func(*rapid.T) {
			return func(t *rapid.T) {
				next++
				s := vkit.Step{Op: op, V: next, Ctx: -1}
				if (!r.st.Closed && r.st.T.Cap() <= r.st.T.N) || rapid.IntRange(0, 3).Draw(t, "cancelled") == 0 {
					s.Ctx = 0
				}
				do(s)
			}
		}
		waitPop := func(op string) func(*rapid.T) {
			return func(t *rapid.T) {
				s := vkit.Step{Op: op, Ctx: -1}
				if (!r.st.Closed && r.st.T.N == 0) || rapid.IntRange(0, 3).Draw(t, "cancelled") == 0 {
					s.Ctx = 0
				}
				do(s)
			}
		}
		t.Repeat(map[string]func(*rapid.T){
			"PushFront":      pushOp("PushFront"),
			"PushBack":       pushOp("PushBack"),
			"ForcePushFront": pushOp("ForcePushFront"),
			"ForcePushBack":  pushOp("ForcePushBack"),
			"WaitPushFront":  waitPush("WaitPushFront"),
			"WaitPushBack":   waitPush("WaitPushBack"),
			"PopFront":       func(*rapid.T) { do(vkit.Step{Op: "PopFront", Ctx: -1}) },
			"PopBack":        func(*rapid.T) { do(vkit.Step{Op: "PopBack", Ctx: -1}) },
			"WaitFront":      waitPop("WaitFront"),
			"WaitBack":       waitPop("WaitBack"),
			"Len":            func(*rapid.T) { do(vkit.Step{Op: "Len", Ctx: -1}) },
			"Close": func(t *rapid.T) {
				if rapid.IntRange(0, 3).Draw(t, "really") != 0 {
					t.Skip("keep the deque open a little longer")
				}
				do(vkit.Step{Op: "Close", Ctx: -1})
			},
		})
		cc := *c
		cc.Steps = append([]vkit.Step{}, c.Steps...)
		cls := []string{"kind=" + c.Opts.Kind}
		if r.reject > 0 {
			cls = append(cls, "rejection")
		}
		if r.evict > 0 {
			cls = append(cls, "eviction")
		}
		if r.bothEnd[0] && r.bothEnd[1] {
			cls = append(cls, "both-ends")
		}
		vkit.Case(tSeq, vkit.Hash(cc), (r.reject > 0 || r.evict > 0) && r.bothEnd[0] && r.bothEnd[1], cls, func() any { return cc })
	})
}

// ---------------------------------------------------------------------
// concurrent histories

const tLin = "TestDequeLinearizable"

type linCase struct {
	Opts    Opts         `json:"opts"`
	Prefill int          `json:"prefill,omitempty"` // PushBacks applied (to the deque and to the model) before the threads start
	Prog    vkit.Program `json:"program"`
	History []string     `json:"history,omitempty"`
}

func runLin(t vkit.TB, c *linCase, reps int) (overlaps, released int) {
	for i := 0; i < reps; i++ {
		dq, init := c.Opts.Make()
		for k := 0; k < c.Prefill; k++ {
			in := vkit.Step{Op: "PushBack", V: 9000 + k, Ctx: -1}
			out := exec(dq)(0, in, context.Background())
			ok, st := step(init, in, out)
			if !ok {
				vkit.Fail(t, tLin, "C06:prefill", *c, "prefill PushBack %d returned %q, which the sequential model does not allow", k, out.Err)
			}
			init = st
		}
		model := porcupine.Model{
			Init:              func() any { return init },
			Step:              func(st, in, out any) (bool, any) { return step(st.(pmodel.State), in.(vkit.Step), out.(vkit.Result)) },
			DescribeOperation: describe,
		}
		r := &vkit.Runner{Blocking: blocking, Exec: exec(dq)}
		r.OnHang = func(stacks string) {
			vkit.Fail(t, tLin, "C06:hang", *c, "the program makes no progress although every context was cancelled: calls are stuck inside the library (repetition %d of %d)\n%s", i, reps, stacks)
		}
		h, rel := r.Run(c.Prog)
		if rel {
			released++
		}
		ops := h.Ops()
		overlaps += vkit.Overlaps(ops)
		ok, unknown := vkit.Linearizable(model, ops)
		if unknown {
			vkit.Class(tLin, "checker-timeout")
		}
		if !ok {
			sort.Slice(ops, func(i, j int) bool { return ops[i].Call < ops[j].Call })
			cc := *c
			for _, o := range ops {
				cc.History = append(cc.History, fmt.Sprintf("g%d [%d,%d] %s", o.ClientId, o.Call, o.Return, describe(o.Input, o.Output)))
			}
			vkit.Fail(t, tLin, "C06:linearizable", cc, "history of the deque is not linearizable (repetition %d of %d)", i, reps)
		}
	}
	return
}

var linContentionOps = []string{"WaitPushFront", "WaitPushBack", "WaitPushBack", "ForcePushFront", "ForcePushBack", "PushBack", "PushFront", "PopFront", "PopBack", "WaitFront", "Len", "cancel"}

var linOps = []string{"PushFront", "PushBack", "PushBack", "ForcePushFront", "ForcePushBack", "WaitPushFront", "WaitPushBack", "PopFront", "PopFront", "PopBack", "WaitFront", "WaitBack", "Len", "Close", "cancel"}

func TestDequeLinearizable(t *testing.T) {
	var rc linCase
	if ok, err := vkit.ReplayCase(tLin, &rc); err != nil {
		t.Fatal(err)
	} else if ok {
		rc.History = nil
		runLin(t, &rc, 300)
		return
	}
	reps := vkit.Pick(5, 12)
	rapid.Check(t, func(t *rapid.T) {
		c := &linCase{Opts: GenOpts(t)}
		c.Prog.Procs = rapid.SampledFrom([]int{1, 2, 4, 16}).Draw(t, "gomaxprocs")
		ng := rapid.IntRange(2, 4).Draw(t, "goroutines")
		next, closes := 0, 0
		// half of the bounded cases are "slot contention" programs: the
		// deque starts full (or one below) and the threads mostly push
		// (blocking, forcing, plain) and pop at both ends
		ops := linOps
		contention := c.Opts.Kind != "unlimited" && rapid.Bool().Draw(t, "contention")
		if contention {
			full := c.Opts.Capacity
			if c.Opts.Kind == "quota" {
				if full = c.Opts.Soft; full <= 0 {
					full = c.Opts.Hard
				}
			}
			if c.Prefill = full - rapid.IntRange(0, 1).Draw(t, "belowCapacity"); c.Prefill < 0 {
				c.Prefill = 0
			}
			ops = linContentionOps
			// a third of them use Force pushes and Len only: the deque
			// stays exactly at its capacity at every instant, so any
			// other Len exposes an intermediate state of the eviction
			if rapid.IntRange(0, 2).Draw(t, "forceOnly") == 0 {
				c.Prefill = full
				ops = []string{"ForcePushFront", "ForcePushBack", "ForcePushBack", "Len", "Len"}
			}
		}
		// "close after free" (as in C05): the deque is full and producers
		// are parked in WaitPush*; one thread pops, closes at once and
		// then looks (Len, PushBack)
		closeAfterFree := contention && rapid.IntRange(0, 3).Draw(t, "closeAfterFree") == 0
		if closeAfterFree {
			full := c.Opts.Capacity
			if c.Opts.Kind == "quota" {
				if full = c.Opts.Soft; full <= 0 {
					full = c.Opts.Hard
				}
			}
			c.Prefill = full
			y := func() int { return rapid.IntRange(0, 2).Draw(t, "yield") }
			next++
			c.Prog.Threads = append(c.Prog.Threads, []vkit.Step{
				{Op: "Len", Ctx: -1, Yield: 4},
				{Op: rapid.SampledFrom([]string{"PopFront", "PopBack"}).Draw(t, "pop"), Ctx: -1, Yield: rapid.IntRange(0, 8).Draw(t, "settle")},
				{Op: "Close", Ctx: -1, Yield: y()},
				{Op: "Len", Ctx: -1, Yield: y()},
				{Op: "PushBack", V: next, Ctx: -1, Yield: y()},
				{Op: "Len", Ctx: -1, Yield: y()},
			})
			closes = 1
			ng--
			ops = []string{"WaitPushFront", "WaitPushBack", "WaitPushBack", "Len"}
		}
		// "push then close": consumers are parked on the empty deque; one
		// thread pushes and closes at once
		pushThenClose := !contention && !closeAfterFree && rapid.IntRange(0, 7).Draw(t, "pushThenClose") == 0
		if pushThenClose {
			y := func() int { return rapid.IntRange(0, 2).Draw(t, "yield") }
			next++
			c.Prog.Threads = append(c.Prog.Threads, []vkit.Step{
				{Op: "Len", Ctx: -1, Yield: 4},
				{Op: rapid.SampledFrom([]string{"PushBack", "PushFront"}).Draw(t, "push"), V: next, Ctx: -1, Yield: rapid.IntRange(0, 8).Draw(t, "settle")},
				{Op: "Close", Ctx: -1, Yield: y()},
				{Op: "Len", Ctx: -1, Yield: y()},
				{Op: "PopFront", Ctx: -1, Yield: y()},
			})
			closes = 1
			ng--
			ops = []string{"WaitFront", "WaitBack", "WaitFront", "Len"}
		}
		for g := 0; g < ng; g++ {
			n := rapid.IntRange(1, 7).Draw(t, "nops")
			if closeAfterFree || pushThenClose {
				n = rapid.IntRange(1, 2).Draw(t, "nopsParkedConsumers")
			}
			var th []vkit.Step
			for i := 0; i < n; i++ {
				s := vkit.Step{Op: rapid.SampledFrom(ops).Draw(t, "op"), Ctx: -1, Yield: rapid.IntRange(0, 4).Draw(t, "yield")}
				switch s.Op {
				case "PushFront", "PushBack", "ForcePushFront", "ForcePushBack", "WaitPushFront", "WaitPushBack":
					next++
					s.V = next
				case "Close":
					if closes++; closes > 1 || rapid.IntRange(0, 2).Draw(t, "keepClose") != 0 {
						s.Op = "Len"
					}
				}
				if blocking(s) {
					s.Ctx = c.Prog.NCtx
					c.Prog.NCtx++
				}
				th = append(th, s)
			}
			c.Prog.Threads = append(c.Prog.Threads, th)
		}
		for g := range c.Prog.Threads {
			for i := range c.Prog.Threads[g] {
				if s := &c.Prog.Threads[g][i]; s.Op == "cancel" {
					if c.Prog.NCtx == 0 {
						s.Op, s.Ctx = "Len", -1
					} else {
						s.Ctx = rapid.IntRange(0, c.Prog.NCtx-1).Draw(t, "cancelTarget")
					}
				}
			}
		}
		ov, rel := runLin(t, c, reps)
		cls := []string{"kind=" + c.Opts.Kind, fmt.Sprintf("goroutines=%d", ng), fmt.Sprintf("overlap=%v", ov > 0), fmt.Sprintf("slot-contention=%v", contention)}
		if rel > 0 {
			cls = append(cls, "leftovers-released")
		}
		vkit.CaseN(tLin, vkit.Hash(*c), reps, ov > 0, cls, func() any { return *c })
	})
}
