// Package c17 decides property C17: SortMerge / SortQuick / IsSorted /
// Heap agree with the ordering relation, for every input.
package c17

import (
	"context"
	"fmt"
	"sort"
	"testing"
	"time"

	"github.com/tychoish/fun"
	"github.com/tychoish/fun/dt"
	"github.com/tychoish/fun/dt/cmp"
	"pgregory.net/rapid"

	"verif/harness/vkit"
)

func TestMain(m *testing.M) { vkit.Main(m) }

// P is a list member: K is the sort key, I the position in the input
// (used to observe stability and to tell equal keys apart).
type P struct{ K, I int }

type ltKind struct {
	name   string
	strict bool // strict weak ordering even with duplicate keys
	lt     cmp.LessThan[P]
	less   func(a, b P) bool // the same relation, written independently
}

var ltKinds = []ltKind{
	{"native", true, func(a, b P) bool { return cmp.LessThanNative(a.K, b.K) }, func(a, b P) bool { return a.K < b.K }},
	{"greater", true, func(a, b P) bool { return b.K < a.K }, func(a, b P) bool { return a.K > b.K }},
	{"converter", true, cmp.LessThanConverter(func(p P) int { return p.K }), func(a, b P) bool { return a.K < b.K }},
	{"converter-abs", true, cmp.LessThanConverter(func(p P) int {
		if p.K < 0 {
			return -p.K
		}
		return p.K
	}), func(a, b P) bool { return abs(a.K) < abs(b.K) }},
	// cmp.Reverse(lt) is !lt, which is not strict: only used on
	// duplicate-free inputs, where it is the strict order b<a.
	{"cmp.Reverse", false, cmp.Reverse(func(a, b P) bool { return a.K < b.K }), func(a, b P) bool { return a.K > b.K }},
}

func abs(a int) int {
	if a < 0 {
		return -a
	}
	return a
}

// genKeys draws the key sequence with the boundary-directed shapes the
// property names.
func genKeys(t *rapid.T, distinct bool) (string, []int) {
	shape := rapid.SampledFrom([]string{"random", "random", "small-domain", "sorted", "reversed", "first-pair", "last-pair", "middle-pair", "all-equal", "neg-zero"}).Draw(t, "shape")
	n := rapid.IntRange(0, 24).Draw(t, "n")
	keys := make([]int, n)
	switch shape {
	case "random":
		for i := range keys {
			keys[i] = rapid.IntRange(-1000, 1000).Draw(t, "k")
		}
	case "small-domain":
		for i := range keys {
			keys[i] = rapid.IntRange(-2, 2).Draw(t, "k")
		}
	case "neg-zero":
		for i := range keys {
			keys[i] = rapid.IntRange(-3, 0).Draw(t, "k")
		}
	case "all-equal":
		v := rapid.IntRange(-3, 3).Draw(t, "k")
		for i := range keys {
			keys[i] = v
		}
	default:
		// start from a sorted run, then disturb it
		step := rapid.IntRange(0, 3).Draw(t, "step")
		v := rapid.IntRange(-5, 5).Draw(t, "start")
		for i := range keys {
			keys[i] = v
			v += step
			if step == 0 && i%2 == 1 {
				v++
			}
		}
		switch shape {
		case "reversed":
			for i, j := 0, n-1; i < j; i, j = i+1, j-1 {
				keys[i], keys[j] = keys[j], keys[i]
			}
		case "first-pair":
			if n >= 2 {
				keys[0], keys[1] = keys[1]+1, keys[0]
			}
		case "last-pair":
			if n >= 2 {
				keys[n-1], keys[n-2] = keys[n-2]-1, keys[n-1]
			}
		case "middle-pair":
			if n >= 3 {
				i := rapid.IntRange(1, n-2).Draw(t, "at")
				keys[i], keys[i+1] = keys[i+1]+1, keys[i]
			}
		}
	}
	if distinct {
		seen := map[int]bool{}
		out := keys[:0]
		for _, k := range keys {
			if !seen[k] {
				seen[k] = true
				out = append(out, k)
			}
		}
		keys = out
	}
	return shape, keys
}

func mkList(keys []int) (*dt.List[P], []P) {
	l := &dt.List[P]{}
	in := make([]P, len(keys))
	for i, k := range keys {
		in[i] = P{k, i}
		l.PushBack(in[i])
	}
	return l, in
}

// walk returns the forward and the (reversed) backward traversal; ok is
// false when a walk does not end within bound steps.
func walk(l *dt.List[P], bound int) (fw, bw []P, ok bool) {
	n := 0
	for e := l.Front(); e.Ok(); e = e.Next() {
		fw = append(fw, e.Value())
		if n++; n > bound {
			return fw, nil, false
		}
	}
	n = 0
	for e := l.Back(); e.Ok(); e = e.Previous() {
		bw = append(bw, e.Value())
		if n++; n > bound {
			return fw, bw, false
		}
	}
	for i, j := 0, len(bw)-1; i < j; i, j = i+1, j-1 {
		bw[i], bw[j] = bw[j], bw[i]
	}
	return fw, bw, true
}

func sortedBy(s []P, less func(a, b P) bool) (int, bool) {
	for i := 1; i < len(s); i++ {
		if less(s[i], s[i-1]) {
			return i, false
		}
	}
	return 0, true
}

func samePairs(a, b []P) bool {
	if len(a) != len(b) {
		return false
	}
	x, y := append([]P{}, a...), append([]P{}, b...)
	by := func(s []P) func(i, j int) bool { return func(i, j int) bool { return s[i].I < s[j].I } }
	sort.Slice(x, by(x))
	sort.Slice(y, by(y))
	for i := range x {
		if x[i] != y[i] {
			return false
		}
	}
	return true
}

type sortCase struct {
	Algo  string `json:"algo"`
	LT    string `json:"lt"`
	Shape string `json:"shape"`
	Keys  []int  `json:"keys"`
	After string `json:"after"`
}

const tSort = "TestSort"

func TestSort(t *testing.T) {
	var rc sortCase
	if ok, err := vkit.ReplayCase(tSort, &rc); err != nil {
		t.Fatal(err)
	} else if ok {
		checkSort(t, rc)
		return
	}
	rapid.Check(t, propSort)
}

// propSort is the generated property; FuzzSort drives the same function with
// the native coverage-guided fuzzer (rapid.MakeFuzz decodes the bytes).
func propSort(t *rapid.T) {
	kind := rapid.IntRange(0, len(ltKinds)-1).Draw(t, "lt")
	shape, keys := genKeys(t, !ltKinds[kind].strict)
	c := sortCase{
		Algo:  rapid.SampledFrom([]string{"SortMerge", "SortQuick"}).Draw(t, "algo"),
		LT:    ltKinds[kind].name,
		Shape: shape,
		Keys:  keys,
		After: rapid.SampledFrom([]string{"push-pop", "sort-again-quick", "sort-again-merge", "extend", "copy"}).Draw(t, "after"),
	}
	checkSort(t, c)
}

func FuzzSort(f *testing.F) { f.Fuzz(rapid.MakeFuzz(propSort)) }

func ltByName(name string) ltKind {
	for _, k := range ltKinds {
		if k.name == name {
			return k
		}
	}
	panic("unknown lt " + name)
}

func checkSort(t vkit.TB, c sortCase) {
	kind := ltByName(c.LT)
	l, in := mkList(c.Keys)
	fail := func(key, f string, a ...any) { t.Helper(); vkit.Fail(t, tSort, key, c, f, a...) }
	get := func() any { return c }

	// the elements themselves (handles held by a caller, the index of a
	// dt.Set) are what the list holds: sorting rearranges them
	before := map[*dt.Element[P]]bool{}
	for e := l.Front(); e.Ok() && len(before) <= len(in); e = e.Next() {
		before[e] = true
	}
	vkit.Watch(tSort, "C17:sort-terminates", time.Minute, get, func() {
		if c.Algo == "SortMerge" {
			l.SortMerge(kind.lt)
		} else {
			l.SortQuick(kind.lt)
		}
	})
	key := "C17:" + c.Algo

	fw, bw, ok := walk(l, len(in)+5)
	if !ok {
		fail(key+"-wellformed", "walk over the sorted list does not terminate (forward prefix %v)", fw)
	}
	if !samePairs(fw, in) {
		fail(key+"-permutation", "forward walk %v is not a permutation of the input %v", fw, in)
	}
	if !samePairs(bw, in) || fmt.Sprint(fw) != fmt.Sprint(bw) {
		fail(key+"-wellformed", "backward walk %v differs from forward walk %v", bw, fw)
	}
	if at, ok := sortedBy(fw, kind.less); !ok {
		fail(key+"-order", "element %d (%v) is lt its predecessor (%v) in %v", at, fw[at], fw[at-1], fw)
	}
	if c.Algo == "SortQuick" {
		for i := 1; i < len(fw); i++ {
			if !kind.less(fw[i-1], fw[i]) && !kind.less(fw[i], fw[i-1]) && fw[i-1].I > fw[i].I {
				fail(key+"-stable", "equal elements %v and %v changed their relative order in %v", fw[i-1], fw[i], fw)
			}
		}
	}
	if l.Len() != len(in) {
		fail(key+"-usable", "Len()=%d after sorting %d elements", l.Len(), len(in))
	}
	if sl := l.Slice(); len(sl) != len(in) || (len(in) > 0 && fmt.Sprint([]P(sl)) != fmt.Sprint(fw)) {
		fail(key+"-usable", "Slice()=%v, walk %v", sl, fw)
	}
	if !l.IsSorted(kind.lt) {
		// IsSorted is decided by TestIsSorted; here it is only exercised.
		_ = 0
	}
	for e := l.Front(); e.Ok(); e = e.Next() {
		if !e.In(l) {
			fail(key+"-usable", "element %v of the sorted list does not report In(list)", e.Value())
		}
		if !before[e] {
			fail(key+"-elements", "the sorted list holds an element (%v) that is not one of its previous elements: a handle taken before the sort no longer refers to the list", e.Value())
		}
	}
	for e := range before {
		if !e.In(l) || !e.Ok() {
			fail(key+"-elements", "an element held before the sort (%v) is no longer in the list (In=%v Ok=%v)", e.Value(), e.In(l), e.Ok())
		}
	}

	// the list remains fully usable
	want := append([]P{}, fw...)
	switch c.After {
	case "push-pop":
		l.PushBack(P{1 << 20, len(in)})
		l.PushFront(P{-(1 << 20), len(in) + 1})
		want = append(append([]P{{-(1 << 20), len(in) + 1}}, want...), P{1 << 20, len(in)})
		for len(want) > 0 {
			e := l.PopFront()
			if !e.Ok() || e.Value() != want[0] {
				fail(key+"-usable", "PopFront after sorting: got %v ok=%v, want %v (remaining model %v)", e.Value(), e.Ok(), want[0], want)
			}
			if e.In(l) {
				fail(key+"-usable", "popped element still reports In(list)")
			}
			want = want[1:]
			if l.Len() != len(want) {
				fail(key+"-usable", "Len()=%d after pop, want %d", l.Len(), len(want))
			}
			if len(want) > 0 {
				e = l.PopBack()
				if !e.Ok() || e.Value() != want[len(want)-1] {
					fail(key+"-usable", "PopBack after sorting: got %v ok=%v, want %v", e.Value(), e.Ok(), want[len(want)-1])
				}
				want = want[:len(want)-1]
			}
		}
		if e := l.PopFront(); e.Ok() {
			fail(key+"-usable", "PopFront on the emptied list returned %v", e.Value())
		}
	case "sort-again-quick", "sort-again-merge":
		vkit.Watch(tSort, key+"-usable", time.Minute, get, func() {
			if c.After == "sort-again-quick" {
				l.SortQuick(kind.lt)
			} else {
				l.SortMerge(kind.lt)
			}
		})
		fw2, bw2, ok := walk(l, len(in)+5)
		if !ok || !samePairs(fw2, in) || fmt.Sprint(fw2) != fmt.Sprint(bw2) || l.Len() != len(in) {
			fail(key+"-usable", "second sort: forward %v backward %v Len %d, input %v", fw2, bw2, l.Len(), in)
		}
		if at, ok := sortedBy(fw2, kind.less); !ok {
			fail(key+"-usable", "second sort: element %d out of order in %v", at, fw2)
		}
	case "extend":
		o := &dt.List[P]{}
		o.PushBack(P{7, -1})
		o.PushBack(P{8, -2})
		l.Extend(o)
		want = append(want, P{7, -1}, P{8, -2})
		fw2, bw2, ok := walk(l, len(want)+5)
		if !ok || fmt.Sprint(fw2) != fmt.Sprint(want) || fmt.Sprint(bw2) != fmt.Sprint(want) || l.Len() != len(want) {
			fail(key+"-usable", "Extend after sort: forward %v backward %v Len %d, want %v", fw2, bw2, l.Len(), want)
		}
	case "copy":
		cp := l.Copy()
		fw2, bw2, ok := walk(cp, len(want)+5)
		if !ok || fmt.Sprint(fw2) != fmt.Sprint(want) || fmt.Sprint(bw2) != fmt.Sprint(want) || cp.Len() != len(want) {
			fail(key+"-usable", "Copy after sort: forward %v backward %v Len %d, want %v", fw2, bw2, cp.Len(), want)
		}
	}

	dup := false
	seen := map[int]bool{}
	for _, k := range c.Keys {
		dup = dup || seen[k]
		seen[k] = true
	}
	classes := []string{"algo:" + c.Algo, "lt:" + c.LT, "shape:" + c.Shape, "after:" + c.After, fmt.Sprintf("len:%s", lenClass(len(c.Keys)))}
	if dup {
		classes = append(classes, "has-duplicates")
	}
	_, already := sortedBy(in, kind.less)
	if !already {
		classes = append(classes, "input-unsorted")
	}
	vkit.Case(tSort, vkit.Hash(c.Algo, c.LT, c.Keys, c.After), len(c.Keys) >= 2 && (!already || dup), classes, get)
}

func lenClass(n int) string {
	switch {
	case n == 0:
		return "0"
	case n == 1:
		return "1"
	case n == 2:
		return "2"
	case n < 8:
		return "3-7"
	}
	return "8+"
}

type isSortedCase struct {
	LT    string `json:"lt"`
	Shape string `json:"shape"`
	Keys  []int  `json:"keys"`
}

const tIsSorted = "TestIsSorted"

func TestIsSorted(t *testing.T) {
	var rc isSortedCase
	if ok, err := vkit.ReplayCase(tIsSorted, &rc); err != nil {
		t.Fatal(err)
	} else if ok {
		checkIsSorted(t, rc)
		return
	}
	rapid.Check(t, propIsSorted)
}

// propIsSorted is the generated property; FuzzIsSorted drives the same function with
// the native coverage-guided fuzzer (rapid.MakeFuzz decodes the bytes).
func propIsSorted(t *rapid.T) {
	kind := rapid.IntRange(0, len(ltKinds)-1).Draw(t, "lt")
	shape, keys := genKeys(t, !ltKinds[kind].strict)
	checkIsSorted(t, isSortedCase{LT: ltKinds[kind].name, Shape: shape, Keys: keys})
}

func FuzzIsSorted(f *testing.F) { f.Fuzz(rapid.MakeFuzz(propIsSorted)) }

func checkIsSorted(t vkit.TB, c isSortedCase) {
	kind := ltByName(c.LT)
	l, in := mkList(c.Keys)
	at, want := sortedBy(in, kind.less)
	got := l.IsSorted(kind.lt)
	if got != want {
		vkit.Fail(t, tIsSorted, "C17:IsSorted", c, "IsSorted(%s) = %v on %v, independent adjacent-pair check says %v (first inversion at index %d)", c.LT, got, c.Keys, want, at)
	}
	var nl *dt.List[P]
	if !nl.IsSorted(kind.lt) || !(&dt.List[P]{}).IsSorted(kind.lt) {
		vkit.Fail(t, tIsSorted, "C17:IsSorted", c, "IsSorted on a nil / zero list is false")
	}
	// IsSorted must not modify the list
	fw, bw, ok := walk(l, len(in)+5)
	if !ok || fmt.Sprint(fw) != fmt.Sprint(in) || fmt.Sprint(bw) != fmt.Sprint(in) {
		vkit.Fail(t, tIsSorted, "C17:IsSorted", c, "IsSorted changed the list: %v / %v, was %v", fw, bw, in)
	}
	inv := "sorted"
	switch {
	case want:
	case at == 1:
		inv = "inversion-first-pair"
	case at == len(in)-1:
		inv = "inversion-last-pair"
	default:
		inv = "inversion-middle"
	}
	if !want {
		// is it the only inversion?
		cnt := 0
		for i := 1; i < len(in); i++ {
			if kind.less(in[i], in[i-1]) {
				cnt++
			}
		}
		if cnt == 1 {
			inv += "-only"
		}
	}
	vkit.Case(tIsSorted, vkit.Hash(c.LT, c.Keys), len(c.Keys) >= 2, []string{"lt:" + c.LT, "shape:" + c.Shape, inv, "len:" + lenClass(len(c.Keys))}, func() any { return c })
}

type heapCase struct {
	LT   string `json:"lt"`
	Init []int  `json:"init"` // pushed through NewHeapFromIterator
	Ops  []int  `json:"ops"`  // >=0: push key (value ops[i]-1000), -1: pop
}

const tHeap = "TestHeap"

func TestHeap(t *testing.T) {
	var rc heapCase
	if ok, err := vkit.ReplayCase(tHeap, &rc); err != nil {
		t.Fatal(err)
	} else if ok {
		checkHeap(t, rc)
		return
	}
	rapid.Check(t, propHeap)
}

// propHeap is the generated property; FuzzHeap drives the same function with
// the native coverage-guided fuzzer (rapid.MakeFuzz decodes the bytes).
func propHeap(t *rapid.T) {
	kind := rapid.IntRange(0, 3).Draw(t, "lt") // strict kinds only: heaps hold duplicates
	c := heapCase{LT: ltKinds[kind].name}
	if rapid.Bool().Draw(t, "fromIterator") {
		_, c.Init = genKeys(t, false)
	}
	small := rapid.Bool().Draw(t, "smallDomain")
	n := rapid.IntRange(0, 30).Draw(t, "nops")
	for i := 0; i < n; i++ {
		if rapid.IntRange(0, 2).Draw(t, "pop") == 0 {
			c.Ops = append(c.Ops, -1)
		} else if small {
			c.Ops = append(c.Ops, 1000+rapid.IntRange(-2, 2).Draw(t, "k"))
		} else {
			c.Ops = append(c.Ops, 1000+rapid.IntRange(-50, 50).Draw(t, "k"))
		}
	}
	checkHeap(t, c)
}

func FuzzHeap(f *testing.F) { f.Fuzz(rapid.MakeFuzz(propHeap)) }

func checkHeap(t vkit.TB, c heapCase) {
	kind := ltByName(c.LT)
	fail := func(f string, a ...any) { t.Helper(); vkit.Fail(t, tHeap, "C17:Heap", c, f, a...) }
	var h *dt.Heap[P]
	var model []P // kept sorted, stable
	id := 0
	insert := func(p P) {
		i := len(model)
		for i > 0 && kind.less(p, model[i-1]) {
			i--
		}
		model = append(model, P{})
		copy(model[i+1:], model[i:])
		model[i] = p
	}
	if c.Init != nil {
		src := make([]P, len(c.Init))
		for i, k := range c.Init {
			src[i] = P{k, id}
			id++
		}
		var err error
		h, err = dt.NewHeapFromIterator(context.Background(), kind.lt, fun.SliceIterator(src))
		if err != nil {
			fail("NewHeapFromIterator: %v", err)
		}
		for _, p := range src {
			insert(p)
		}
	} else {
		h = &dt.Heap[P]{LT: kind.lt}
	}
	pops, dupPops := 0, false
	pop := func() {
		got, ok := h.Pop()
		if len(model) == 0 {
			if ok {
				fail("Pop on an empty heap returned %v, true", got)
			}
			return
		}
		if !ok {
			fail("Pop returned !ok with %d values in the heap", len(model))
		}
		// any minimal element is acceptable (the statement asks
		// for non-decreasing order, each value exactly once)
		if kind.less(model[0], got) {
			fail("Pop returned %v although %v is smaller (model %v)", got, model[0], model)
		}
		found := -1
		for i, p := range model {
			if p == got {
				found = i
				break
			}
		}
		if found < 0 {
			fail("Pop returned %v which is not in the heap (pushed and not yet popped: %v)", got, model)
		}
		if len(model) > 1 && !kind.less(model[0], model[1]) {
			dupPops = true
		}
		model = append(model[:found], model[found+1:]...)
		pops++
	}
	for _, op := range c.Ops {
		if op == -1 {
			pop()
		} else {
			p := P{op - 1000, id}
			id++
			h.Push(p)
			insert(p)
		}
		if h.Len() != len(model) {
			fail("Len()=%d, want %d", h.Len(), len(model))
		}
	}
	// the iterator lists the content in pop order without consuming it
	it, err := h.Iterator().Slice(context.Background())
	if err != nil || len(it) != len(model) {
		fail("Iterator gave %v (%v), heap holds %v", it, err, model)
	}
	if _, ok := sortedBy(it, kind.less); !ok || !samePairs(it, model) {
		fail("Iterator gave %v, heap holds %v", it, model)
	}
	for len(model) > 0 {
		pop()
	}
	pop()
	classes := []string{"lt:" + c.LT}
	if c.Init != nil {
		classes = append(classes, "from-iterator")
	}
	if dupPops {
		classes = append(classes, "popped-among-equal-keys")
	}
	vkit.Case(tHeap, vkit.Hash(c.LT, c.Init, c.Ops), pops >= 2 && id >= 2, classes, func() any { return c })
}
