// Package c18 decides property C18: dt.Set behaves as a mathematical set,
// optionally insertion-ordered, and a synchronized set is linearizable.
package c18

import (
	"context"
	"encoding/json"
	"fmt"
	"runtime"
	"sort"
	"strings"
	"sync"
	"testing"
	"time"

	"github.com/anishathalye/porcupine"
	"github.com/tychoish/fun"
	"github.com/tychoish/fun/dt"
	"github.com/tychoish/fun/dt/cmp"
	"pgregory.net/rapid"

	"verif/harness/vkit"
)

func TestMain(m *testing.M) { vkit.Main(m) }

const tSet = "TestSetModel"

type Op struct {
	Op   string `json:"op"`
	V    int    `json:"v,omitempty"`
	Vs   []int  `json:"vs,omitempty"`
	Mode int    `json:"mode,omitempty"`
}

type setCase struct {
	Ordered bool `json:"ordered"`
	Synced  bool `json:"synced"`
	// the peer is a second, persistent set (its own flavour) that the
	// first one extends from and that extends from the first one: what
	// one set does must never show in the other
	PeerOrdered bool `json:"peer_ordered,omitempty"`
	PeerSynced  bool `json:"peer_synced,omitempty"`
	Ops         []Op `json:"ops"`
}

type sworld struct {
	t       vkit.TB
	c       *setCase
	s       *dt.Set[int]
	order   []int // members, in insertion (or sorted) order
	listed  bool  // the set iterates in a defined order
	cur     Op
	failing bool
	cls     map[string]bool
	mut     int
	peer    *sworld // nil in the peer itself
	isPeer  bool
}

func (w *sworld) mk() *dt.Set[int] {
	s := &dt.Set[int]{}
	synced, ordered := w.c.Synced, w.c.Ordered
	if w.isPeer {
		synced, ordered = w.c.PeerSynced, w.c.PeerOrdered
	}
	if synced {
		s.Synchronize()
	}
	if ordered {
		s.Order()
	}
	return s
}

// newPeer builds the second set of the world.
func (w *sworld) newPeer() {
	p := &sworld{t: w.t, c: w.c, cls: w.cls, listed: w.c.PeerOrdered, isPeer: true}
	p.s = p.mk()
	w.peer = p
}

// extendFrom models dst.Extend(src) for two persistent sets.
func (w *sworld) extendFrom(src *sworld) {
	before := len(w.order)
	w.s.Extend(src.s)
	w.addAll(src.order)
	if w.listed && !src.listed {
		w.resyncTail(before)
	}
	w.mut++
}

func (w *sworld) fail(f string, a ...any) {
	w.t.Helper()
	w.failing = true
	vkit.Fail(w.t, tSet, "C18:set/"+w.cur.Op, w.c, "after %+v: %s (model %v, ordered=%v)", w.cur, fmt.Sprintf(f, a...), w.order, w.listed)
}

func (w *sworld) has(v int) bool {
	for _, x := range w.order {
		if x == v {
			return true
		}
	}
	return false
}

func (w *sworld) del(v int) {
	for i, x := range w.order {
		if x == v {
			w.order = append(w.order[:i:i], w.order[i+1:]...)
			return
		}
	}
}

func (w *sworld) add(v int) {
	if !w.has(v) {
		w.order = append(w.order, v)
	}
}

func sorted(in []int) []int {
	out := append([]int{}, in...)
	sort.Ints(out)
	return out
}

func same(a, b []int) bool {
	if len(a) != len(b) {
		return false
	}
	for i := range a {
		if a[i] != b[i] {
			return false
		}
	}
	return true
}

// iterate reads the whole set through its iterator, with a deadline:
// the unordered iterator is fed by a goroutine.
func iterate(s *dt.Set[int]) ([]int, error) {
	ctx, cancel := context.WithTimeout(context.Background(), 30*time.Second)
	defer cancel()
	return s.Iterator().Slice(ctx)
}

func (w *sworld) check() {
	if w.s.Len() != len(w.order) {
		w.fail("Len()=%d", w.s.Len())
	}
	got, err := iterate(w.s)
	if err != nil {
		w.fail("Iterator: %v", err)
	}
	if w.listed {
		if !same(got, w.order) {
			w.fail("iterates %v", got)
		}
	} else if !same(sorted(got), sorted(w.order)) {
		w.fail("iterates the multiset %v", sorted(got))
	}
	for v := -1; v < 9; v++ {
		if w.s.Check(v) != w.has(v) {
			w.fail("Check(%d)=%v", v, w.s.Check(v))
		}
	}
}

// newMembers appends to the model the members of vs that are new, in the
// order given.
func (w *sworld) addAll(vs []int) {
	for _, v := range vs {
		w.add(v)
	}
}

// apply runs one op under a watchdog (sequential library code that does
// not return, or allocates without bound, does not terminate).
func (w *sworld) apply(o Op) {
	vkit.Watch(tSet, "C18:set/"+o.Op+"/terminates", 30*time.Second, func() any { return w.c }, func() { w.applyStep(o) })
}

func (w *sworld) applyStep(o Op) {
	w.cur = o
	defer func() {
		if r := recover(); r != nil {
			if w.failing {
				panic(r)
			}
			w.fail("panic: %v", r)
		}
	}()
	switch o.Op {
	case "Add":
		if w.has(o.V) {
			w.cls["re-add"] = true
		}
		w.s.Add(o.V)
		w.add(o.V)
		w.mut++
	case "AddCheck":
		// documented: true if the item had been in the set before
		if got := w.s.AddCheck(o.V); got != w.has(o.V) {
			w.fail("AddCheck(%d)=%v, was member: %v", o.V, got, w.has(o.V))
		}
		if w.has(o.V) {
			w.cls["re-add"] = true
		}
		w.add(o.V)
		w.mut++
	case "Delete":
		if !w.has(o.V) {
			w.cls["delete-absent"] = true
		}
		w.s.Delete(o.V)
		w.del(o.V)
		w.mut++
	case "DeleteCheck":
		if got := w.s.DeleteCheck(o.V); got != w.has(o.V) {
			w.fail("DeleteCheck(%d)=%v, was member: %v", o.V, got, w.has(o.V))
		}
		if !w.has(o.V) {
			w.cls["delete-absent"] = true
		} else if w.listed {
			w.cls["delete-from-ordered"] = true
		}
		w.del(o.V)
		w.mut++
	case "Populate":
		w.s.Populate(fun.SliceIterator(append([]int{}, o.Vs...)))
		w.addAll(o.Vs)
		w.mut++
	case "Extend":
		// the other set has the same flavour; when it is unordered its
		// iteration order is unspecified, so an ordered receiver only
		// promises that the new tail is a permutation of the new members
		other := w.mk()
		for _, v := range o.Vs {
			other.Add(v)
		}
		before := len(w.order)
		w.s.Extend(other)
		w.addAll(o.Vs)
		if w.listed && !w.c.Ordered {
			w.resyncTail(before)
		}
		w.mut++
	case "SortQuick", "SortMerge":
		if o.Op == "SortQuick" {
			w.s.SortQuick(cmp.LessThanNative[int])
		} else {
			w.s.SortMerge(cmp.LessThanNative[int])
		}
		if !w.listed {
			w.cls["sort-unordered"] = true
		}
		sort.Ints(w.order)
		w.listed = true
		w.mut++
	case "JSON":
		b, err := json.Marshal(w.s)
		if err != nil {
			w.fail("MarshalJSON: %v", err)
		}
		var dec []int
		if err := json.Unmarshal(b, &dec); err != nil {
			w.fail("MarshalJSON produced %s: %v", b, err)
		}
		if w.listed {
			if !same(dec, w.order) {
				w.fail("MarshalJSON=%s", b)
			}
		} else if !same(sorted(dec), sorted(w.order)) {
			w.fail("MarshalJSON=%s", b)
		}
		o2 := w.mk()
		if err := json.Unmarshal(b, o2); err != nil {
			w.fail("UnmarshalJSON(%s): %v", b, err)
		}
		got, err := iterate(o2)
		if err != nil || o2.Len() != len(w.order) || !same(sorted(got), sorted(w.order)) {
			w.fail("JSON round trip: %v (Len %d, %v)", got, o2.Len(), err)
		}
		if w.c.Ordered && !same(got, w.order) {
			w.fail("JSON round trip of an ordered set: %v", got)
		}
		if w.listed == w.c.Ordered && !w.s.Equal(o2) {
			w.fail("JSON round trip is not Equal to the original (%s)", b)
		}
	case "UnmarshalInto":
		// adds the decoded members to the existing ones
		b, _ := json.Marshal(o.Vs)
		if o.Vs == nil {
			b = []byte("[]")
		}
		if err := w.s.UnmarshalJSON(b); err != nil {
			w.fail("UnmarshalJSON(%s): %v", b, err)
		}
		w.addAll(o.Vs)
		w.mut++
	case "Equal":
		if w.listed != w.c.Ordered {
			// Equal between an ordered and an unordered set is not
			// defined by the statement
			return
		}
		src := append([]int{}, w.order...)
		want := true
		switch o.Mode {
		case 1: // same members, other insertion order
			if len(src) < 2 {
				return
			}
			src[0], src[len(src)-1] = src[len(src)-1], src[0]
			want = !w.c.Ordered
			w.cls["equal-permuted"] = true
		case 2: // same size, one member different
			if len(src) == 0 {
				return
			}
			src[o.V%len(src)] = 100 + o.V
			want = false
			w.cls["equal-one-different"] = true
		case 3: // one member fewer
			if len(src) == 0 {
				return
			}
			src = src[:len(src)-1]
			want = false
		case 4: // one member more
			src = append(src, 100)
			want = false
		}
		other := w.mk()
		for _, v := range src {
			other.Add(v)
		}
		if got := w.s.Equal(other); got != want {
			w.fail("Equal(set built from %v)=%v, want %v", src, got, want)
		}
		if got := other.Equal(w.s); got != want {
			w.fail("(set built from %v).Equal(this)=%v, want %v", src, got, want)
		}
	case "FromSlice":
		ns := dt.NewSetFromSlice(append([]int{}, o.Vs...))
		m := map[int]bool{}
		for _, v := range o.Vs {
			m[v] = true
		}
		got, err := iterate(ns)
		if err != nil || ns.Len() != len(m) || len(got) != len(m) {
			w.fail("NewSetFromSlice(%v): %v Len %d (%v)", o.Vs, got, ns.Len(), err)
		}
		for _, v := range got {
			if !m[v] {
				w.fail("NewSetFromSlice(%v) holds %v", o.Vs, got)
			}
		}
	case "PeerAdd":
		w.peer.cur = o
		w.peer.s.Add(o.V)
		w.peer.add(o.V)
	case "PeerDelete":
		w.peer.cur = o
		if got := w.peer.s.DeleteCheck(o.V); got != w.peer.has(o.V) {
			w.peer.fail("DeleteCheck(%d)=%v, was member: %v", o.V, got, w.peer.has(o.V))
		}
		w.peer.del(o.V)
		w.cls["peer-delete"] = true
	case "PeerSort":
		w.peer.cur = o
		w.peer.s.SortQuick(cmp.LessThanNative[int])
		sort.Ints(w.peer.order)
		w.peer.listed = true
	case "ExtendFromPeer":
		w.extendFrom(w.peer)
		w.cls["extend-from-peer"] = true
	case "PeerExtendFromMain":
		w.peer.cur = o
		w.peer.extendFrom(w)
		w.cls["peer-extends-from-main"] = true
	default:
		panic("unknown op " + o.Op)
	}
	w.check()
	if w.peer != nil {
		w.peer.cur = o
		w.peer.check()
	}
}

// resyncTail accepts any order of the members appended since `before`
// (they came from an unordered source) and adopts the order the set has.
func (w *sworld) resyncTail(before int) {
	got, err := iterate(w.s)
	if err != nil || len(got) != len(w.order) {
		w.fail("iterates %v (%v)", got, err)
	}
	if !same(got[:before], w.order[:before]) || !same(sorted(got[before:]), sorted(w.order[before:])) {
		w.fail("iterates %v", got)
	}
	w.order = got
}

func runSetCase(t vkit.TB, c *setCase) *sworld {
	w := &sworld{t: t, c: c, cls: map[string]bool{}, listed: c.Ordered}
	w.s = w.mk()
	w.newPeer()
	w.cur = Op{Op: "new"}
	w.check()
	for _, o := range c.Ops {
		w.apply(o)
	}
	return w
}

func TestSetModel(t *testing.T) {
	var rc setCase
	if ok, err := vkit.ReplayCase(tSet, &rc); err != nil {
		t.Fatal(err)
	} else if ok {
		runSetCase(t, &rc)
		return
	}
	rapid.Check(t, func(t *rapid.T) {
		c := &setCase{Ordered: rapid.Bool().Draw(t, "ordered"), Synced: rapid.Bool().Draw(t, "synced"), PeerOrdered: rapid.Bool().Draw(t, "peerOrdered"), PeerSynced: rapid.Bool().Draw(t, "peerSynced")}
		w := &sworld{t: t, c: c, cls: map[string]bool{}, listed: c.Ordered}
		w.s = w.mk()
		w.newPeer()
		val := func() int { return rapid.IntRange(0, 7).Draw(t, "v") }
		vals := func() []int { return rapid.SliceOfN(rapid.IntRange(0, 7), 0, 5).Draw(t, "vs") }
		do := func(o Op) { c.Ops = append(c.Ops, o); w.apply(o) }
		t.Repeat(map[string]func(*rapid.T){
			"Add":                func(*rapid.T) { do(Op{Op: "Add", V: val()}) },
			"AddCheck":           func(*rapid.T) { do(Op{Op: "AddCheck", V: val()}) },
			"Delete":             func(*rapid.T) { do(Op{Op: "Delete", V: val()}) },
			"DeleteCheck":        func(*rapid.T) { do(Op{Op: "DeleteCheck", V: val()}) },
			"Populate":           func(*rapid.T) { do(Op{Op: "Populate", Vs: vals()}) },
			"Extend":             func(*rapid.T) { do(Op{Op: "Extend", Vs: vals()}) },
			"SortQuick":          func(*rapid.T) { do(Op{Op: "SortQuick"}) },
			"SortMerge":          func(*rapid.T) { do(Op{Op: "SortMerge"}) },
			"JSON":               func(*rapid.T) { do(Op{Op: "JSON"}) },
			"UnmarshalInto":      func(*rapid.T) { do(Op{Op: "UnmarshalInto", Vs: vals()}) },
			"Equal":              func(*rapid.T) { do(Op{Op: "Equal", Mode: rapid.IntRange(0, 4).Draw(t, "mode"), V: val()}) },
			"FromSlice":          func(*rapid.T) { do(Op{Op: "FromSlice", Vs: vals()}) },
			"PeerAdd":            func(*rapid.T) { do(Op{Op: "PeerAdd", V: val()}) },
			"PeerDelete":         func(*rapid.T) { do(Op{Op: "PeerDelete", V: val()}) },
			"PeerSort":           func(*rapid.T) { do(Op{Op: "PeerSort"}) },
			"ExtendFromPeer":     func(*rapid.T) { do(Op{Op: "ExtendFromPeer"}) },
			"PeerExtendFromMain": func(*rapid.T) { do(Op{Op: "PeerExtendFromMain"}) },
		})
		classes := []string{fmt.Sprintf("ordered=%v", c.Ordered), fmt.Sprintf("synced=%v", c.Synced)}
		for k := range w.cls {
			classes = append(classes, k)
		}
		cc := *c
		cc.Ops = append([]Op{}, c.Ops...)
		vkit.Case(tSet, vkit.Hash(cc), w.mut >= 3 && (w.cls["re-add"] || w.cls["delete-absent"] || w.cls["delete-from-ordered"] || w.cls["sort-unordered"]), classes, func() any { return cc })
	})
}

// ---------------------------------------------------------------------
// concurrent leg: a synchronized set is linearizable

const tConc = "TestSetLinearizable"

type cop struct {
	Kind  string `json:"kind"` // AddCheck DeleteCheck Check Len
	V     int    `json:"v"`
	Yield int    `json:"yield"`
}

type concCase struct {
	Ordered bool     `json:"ordered"`
	OwnLock bool     `json:"own_lock,omitempty"` // WithLock(m) with a mutex of the caller instead of Synchronize()
	Procs   int      `json:"gomaxprocs"`
	Threads [][]cop  `json:"threads"`
	History []string `json:"history,omitempty"`
}

type sin struct {
	kind string
	v    int
}

// The model keeps the iteration order as well: the state is "o" or "u"
// (order tracked or not) followed by one byte per member - in iteration
// order for "o", ascending (canonical) for "u".  A Sort* turns the state
// into "o" + the ascending members; "Final" is the iteration observed by
// the harness after every goroutine has returned.
func seqHas(st string, v int) int { return strings.IndexByte(st[1:], byte('0'+v)) }

func seqSorted(m string) string {
	b := []byte(m)
	sort.Slice(b, func(i, j int) bool { return b[i] < b[j] })
	return string(b)
}

var setModel = porcupine.Model{
	Init: func() any { return "u" },
	Step: func(state, input, output any) (bool, any) {
		st := state.(string)
		in := input.(sin)
		at := seqHas(st, in.v)
		switch in.kind {
		case "Order":
			return true, "o" + st[1:]
		case "AddCheck":
			if at >= 0 {
				return output.(bool), st
			}
			if st[0] == 'o' {
				return !output.(bool), st + string(byte('0'+in.v))
			}
			return !output.(bool), "u" + seqSorted(st[1:]+string(byte('0'+in.v)))
		case "DeleteCheck":
			if at < 0 {
				return !output.(bool), st
			}
			return output.(bool), st[:1+at] + st[2+at:]
		case "Check":
			return output.(bool) == (at >= 0), st
		case "Len":
			return output.(int) == len(st)-1, st
		case "Synchronize":
			return true, st
		case "SortQuick", "SortMerge":
			return true, "o" + seqSorted(st[1:])
		case "Final":
			if st[0] == 'o' {
				return output.(string) == st[1:], st
			}
			return seqSorted(output.(string)) == st[1:], st
		}
		return false, st
	},
	DescribeOperation: func(in, out any) string { return fmt.Sprintf("%v(%d)->%v", in.(sin).kind, in.(sin).v, out) },
}

func runConc(t vkit.TB, c *concCase, reps int) (overlaps int) {
	old := runtime.GOMAXPROCS(c.Procs)
	defer runtime.GOMAXPROCS(old)
	for r := 0; r < reps; r++ {
		s := &dt.Set[int]{}
		own := &sync.Mutex{}
		if c.OwnLock {
			s.WithLock(own)
		} else {
			s.Synchronize()
		}
		h := &vkit.Hist{}
		if c.Ordered {
			h.Call(0, sin{"Order", 0}, func() any { s.Order(); return true })
		}
		var wg sync.WaitGroup
		start := make(chan struct{})
		for g, ops := range c.Threads {
			wg.Add(1)
			go func(g int, ops []cop) {
				defer wg.Done()
				<-start
				for _, o := range ops {
					vkit.Yield(o.Yield)
					switch o.Kind {
					case "AddCheck":
						h.Call(g, sin{o.Kind, o.V}, func() any { return s.AddCheck(o.V) })
					case "DeleteCheck":
						h.Call(g, sin{o.Kind, o.V}, func() any { return s.DeleteCheck(o.V) })
					case "Check":
						h.Call(g, sin{o.Kind, o.V}, func() any { return s.Check(o.V) })
					case "Len":
						h.Call(g, sin{o.Kind, 0}, func() any { return s.Len() })
					case "SortQuick":
						// the comparison gives way now and then, so that
						// a sort is in progress for a while
						h.Call(g, sin{o.Kind, 0}, func() any {
							s.SortQuick(func(a, b int) bool { vkit.Yield(o.Yield); return a < b })
							return true
						})
					case "SortMerge":
						h.Call(g, sin{o.Kind, 0}, func() any {
							s.SortMerge(func(a, b int) bool { vkit.Yield(o.Yield); return a < b })
							return true
						})
					case "Synchronize":
						// "safe to call more than once": changes nothing
						h.Call(g, sin{o.Kind, 0}, func() any { s.Synchronize(); return true })
					}
				}
			}(g, ops)
		}
		close(start)
		wg.Wait()
		if c.OwnLock {
			// the set was given the caller's mutex: while the caller
			// holds it no operation of the set gets through (a return
			// during the hold is a violation; not returning within
			// the short hold proves nothing and passes)
			own.Lock()
			through := make(chan struct{})
			go func() { _ = s.Check(0); close(through) }()
			select {
			case <-through:
				own.Unlock()
				vkit.Fail(t, tConc, "C18:set/own-lock", c, "a set configured with WithLock(m) answered Check while the caller held m (repetition %d)", r)
			case <-time.After(500 * time.Microsecond):
			}
			own.Unlock()
			select {
			case <-through:
			case <-time.After(vkit.Limit()):
				vkit.Fail(t, tConc, "C18:set/own-lock", c, "Check has not returned %v after the caller released the mutex given to WithLock", vkit.Limit())
			}
		}
		// the iteration once everything has returned is part of the
		// history: membership and - where the order is tracked (an
		// ordered set, or any set after a Sort*) - the order have to
		// be those of the linearization
		overlaps += vkit.Overlaps(h.Ops())
		h.Call(0, sin{"Final", 0}, func() any {
			got, _ := iterate(s)
			b := make([]byte, len(got))
			for i, v := range got {
				b[i] = byte('0' + v)
			}
			return string(b)
		})
		ops := h.Ops()
		ok, unknown := vkit.Linearizable(setModel, ops)
		if unknown {
			vkit.Class(tConc, "checker-timeout")
		}
		if !ok {
			sort.Slice(ops, func(i, j int) bool { return ops[i].Call < ops[j].Call })
			cc := *c
			for _, o := range ops {
				cc.History = append(cc.History, fmt.Sprintf("g%d [%d,%d] %s", o.ClientId, o.Call, o.Return, setModel.DescribeOperation(o.Input, o.Output)))
			}
			vkit.Fail(t, tConc, "C18:set/linearizable", cc, "history of a synchronized set is not linearizable (repetition %d)", r)
		}
		// final state agrees with some linearization: members are
		// exactly those whose last successful mutation was an add is
		// not decidable without the order; check internal agreement
		got, err := iterate(s)
		if err != nil || len(got) != s.Len() {
			vkit.Fail(t, tConc, "C18:set/linearizable", c, "after the run: iterator yields %v (%v) but Len()=%d", got, err, s.Len())
		}
		for _, v := range got {
			if !s.Check(v) {
				vkit.Fail(t, tConc, "C18:set/linearizable", c, "after the run: iterator yields %d but Check is false", v)
			}
		}
	}
	return overlaps
}

func TestSetLinearizable(t *testing.T) {
	var rc concCase
	if ok, err := vkit.ReplayCase(tConc, &rc); err != nil {
		t.Fatal(err)
	} else if ok {
		rc.History = nil
		runConc(t, &rc, 200)
		return
	}
	reps := vkit.Pick(6, 12)
	rapid.Check(t, func(t *rapid.T) {
		c := &concCase{
			Ordered: rapid.Bool().Draw(t, "ordered"),
			OwnLock: rapid.IntRange(0, 2).Draw(t, "ownLock") == 0,
			Procs:   rapid.SampledFrom([]int{2, 4, 16}).Draw(t, "gomaxprocs"),
		}
		ng := rapid.IntRange(2, 4).Draw(t, "goroutines")
		dom := rapid.IntRange(1, 3).Draw(t, "domain")
		kinds := []string{"AddCheck", "AddCheck", "AddCheck", "DeleteCheck", "DeleteCheck", "DeleteCheck", "Check", "Len", "Synchronize"}
		sorts := rapid.IntRange(0, 2).Draw(t, "sorts") == 0
		if sorts {
			// cases with Sort* calls beside the mutations: more
			// members, so that a sort takes a few comparisons
			dom = rapid.IntRange(3, 6).Draw(t, "domainSorted")
			kinds = []string{"AddCheck", "AddCheck", "AddCheck", "AddCheck", "DeleteCheck", "DeleteCheck", "Check", "Len", "SortQuick", "SortMerge"}
		}
		for g := 0; g < ng; g++ {
			n := rapid.IntRange(1, 6).Draw(t, "nops")
			var ops []cop
			for i := 0; i < n; i++ {
				ops = append(ops, cop{
					Kind:  rapid.SampledFrom(kinds).Draw(t, "kind"),
					V:     rapid.IntRange(0, dom-1).Draw(t, "v"),
					Yield: rapid.IntRange(0, 4).Draw(t, "yield"),
				})
			}
			c.Threads = append(c.Threads, ops)
		}
		ov := runConc(t, c, reps)
		vkit.CaseN(tConc, vkit.Hash(*c), reps, ov > 0, []string{fmt.Sprintf("goroutines=%d", ng), fmt.Sprintf("overlap=%v", ov > 0), fmt.Sprintf("own-lock=%v", c.OwnLock), fmt.Sprintf("sorts=%v", sorts)}, func() any { return *c })
	})
}
