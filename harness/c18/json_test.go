package c18

import (
	"context"
	"encoding/json"
	"fmt"
	"sort"
	"testing"

	"github.com/tychoish/fun/dt"
	"pgregory.net/rapid"

	"verif/harness/vkit"
)

// MarshalJSON / UnmarshalJSON round-trips the members - also members whose
// JSON form omits fields (structs with omitempty): encoding/json merges
// into whatever a decode target already holds, so each member has to be
// decoded on its own.

const tSetJSON = "TestSetJSONMembers"

type member struct {
	Name string `json:"name"`
	Tag  string `json:"tag,omitempty"`
	N    int    `json:"n,omitempty"`
}

type setJSONCase struct {
	Ordered bool     `json:"ordered"`
	Members []member `json:"members"`
	Prefill []member `json:"prefill"` // already in the set that is unmarshalled into
}

func runSetJSON(t vkit.TB, c setJSONCase) {
	fail := func(f string, a ...any) { t.Helper(); vkit.Fail(t, tSetJSON, "C18:set/json-members", c, f, a...) }
	mk := func(ms []member) *dt.Set[member] {
		s := &dt.Set[member]{}
		if c.Ordered {
			s.Order()
		}
		for _, m := range ms {
			s.Add(m)
		}
		return s
	}
	src := mk(c.Members)
	b, err := json.Marshal(src)
	if err != nil {
		fail("MarshalJSON: %v", err)
	}
	var viaStd []member
	if err := json.Unmarshal(b, &viaStd); err != nil {
		fail("the set's JSON %s is not an array of members: %v", b, err)
	}
	dst := mk(c.Prefill)
	if err := json.Unmarshal(b, dst); err != nil {
		fail("UnmarshalJSON(%s): %v", b, err)
	}
	want := map[member]bool{}
	for _, m := range c.Members {
		want[m] = true
	}
	for _, m := range c.Prefill {
		want[m] = true
	}
	if dst.Len() != len(want) {
		fail("after UnmarshalJSON(%s) onto %d members the set has %d members, want %d: %v", b, len(c.Prefill), dst.Len(), len(want), members(dst))
	}
	for m := range want {
		if !dst.Check(m) {
			fail("after UnmarshalJSON(%s): member %+v is missing; the set holds %v", b, m, members(dst))
		}
	}
	if len(c.Prefill) == 0 && !dst.Equal(src) {
		fail("a set unmarshalled from the JSON of another (%s) is not Equal to it: %v vs %v", b, members(dst), members(src))
	}
}

func members(s *dt.Set[member]) []string {
	var out []string
	it := s.Iterator()
	for it.Next(context.Background()) {
		out = append(out, fmt.Sprintf("%+v", it.Value()))
	}
	if !s.Equal(s) {
		out = append(out, "(not Equal to itself)")
	}
	sort.Strings(out)
	return out
}

func TestSetJSONMembers(t *testing.T) {
	var rc setJSONCase
	if ok, err := vkit.ReplayCase(tSetJSON, &rc); err != nil {
		t.Fatal(err)
	} else if ok {
		runSetJSON(t, rc)
		return
	}
	rapid.Check(t, func(t *rapid.T) {
		gen := func(label string, max int) []member {
			n := rapid.IntRange(0, max).Draw(t, label)
			out := make([]member, n)
			for i := range out {
				out[i] = member{
					Name: rapid.SampledFrom([]string{"a", "b", "c", "d", "e"}).Draw(t, "name"),
					Tag:  rapid.SampledFrom([]string{"", "", "x", "y"}).Draw(t, "tag"),
					N:    rapid.SampledFrom([]int{0, 0, 1, 2}).Draw(t, "n"),
				}
			}
			return out
		}
		c := setJSONCase{Ordered: rapid.Bool().Draw(t, "ordered"), Members: gen("members", 6)}
		if rapid.IntRange(0, 2).Draw(t, "prefilled") == 0 {
			c.Prefill = gen("prefill", 3)
		}
		runSetJSON(t, c)
		sparse, full := false, false
		for _, m := range c.Members {
			sparse = sparse || m.Tag == "" || m.N == 0
			full = full || m.Tag != "" || m.N != 0
		}
		vkit.Case(tSetJSON, vkit.Hash(c), len(c.Members) >= 2 && sparse && full, []string{fmt.Sprintf("ordered:%v", c.Ordered), fmt.Sprintf("prefilled:%v", len(c.Prefill) > 0)}, func() any { return c })
	})
}
