// Package c14 decides property C14: fun.WaitGroup.Wait returns iff the
// counter is zero or its context ended.
package c14

import (
	"context"
	"errors"
	"fmt"
	"runtime"
	"sync"
	"sync/atomic"
	"testing"
	"time"

	"github.com/tychoish/fun"
	"github.com/tychoish/fun/ers"
	"github.com/tychoish/fun/verifhook"
	"pgregory.net/rapid"

	"verif/harness/vkit"
)

func TestMain(m *testing.M) { vkit.Main(m) }

const tWG = "TestWaitGroup"

// Worker describes how one unit of work is accounted for.
type Worker struct {
	Kind string `json:"kind"` // add-done | inc-done | launch | dotimes | op-add | startgroup
	N    int    `json:"n,omitempty"`
	Exit string `json:"exit,omitempty"` // launched operations: "" returns | goexit: leaves its goroutine through runtime.Goexit (as t.FailNow / t.SkipNow do)
	Ctx  string `json:"ctx,omitempty"`  // launched operations: the context they are launched with: "" live | cancelled | expired (its deadline has passed)
}

type Waiter struct {
	StartAfter  int    `json:"start_after"`                  // started after that many workers were released
	CancelAfter int    `json:"cancel_after"`                 // context cancelled after that many were released (-1: never)
	Via         string `json:"via"`                          // wait | operation | worker
	Background  bool   `json:"background_context,omitempty"` // waits with context.Background(): a context that can never end
}

type Round struct {
	Workers []Worker `json:"workers"`
	Waiters []Waiter `json:"waiters"`
	Order   []int    `json:"release_order"` // permutation of the units
	Yields  []int    `json:"yields"`
	NegAdd  bool     `json:"negative_add"`
}

type Case struct {
	Procs  int     `json:"gomaxprocs"`
	Rounds []Round `json:"rounds"`
}

// bound keeps a lower bound of the group's counter: raised after an Add
// returned, lowered before a Done is issued.  The counter is at least lo
// at every instant.
type bound struct {
	mu     sync.Mutex
	lo     int
	active map[*wstate]bool
}

type wstate struct {
	min       int
	ctx       context.Context
	cancel    context.CancelFunc
	done      atomic.Bool
	liveAtRet bool
	cancelled atomic.Bool
}

func (b *bound) inc(n int) { b.mu.Lock(); b.lo += n; b.mu.Unlock() }
func (b *bound) dec() {
	b.mu.Lock()
	b.lo--
	for w := range b.active {
		if b.lo < w.min {
			w.min = b.lo
		}
	}
	b.mu.Unlock()
}
func (b *bound) enter(w *wstate) { b.mu.Lock(); w.min = b.lo; b.active[w] = true; b.mu.Unlock() }
func (b *bound) leave(w *wstate) int {
	b.mu.Lock()
	defer b.mu.Unlock()
	delete(b.active, w)
	return w.min
}

func units(r Round) int {
	n := 0
	for _, w := range r.Workers {
		if w.Kind == "dotimes" || w.Kind == "startgroup" {
			if w.N > 0 { // a count <= 0 launches nothing and must not touch the counter
				n += w.N
			}
		} else {
			n++
		}
	}
	return n
}

// launchCtx is the context an operation is launched with: the operation is
// started and accounted for whatever state that context is in (it is the
// operation's business to look at it).
func launchCtx(live context.Context, kind string) context.Context {
	switch kind {
	case "cancelled":
		c, cancel := context.WithCancel(live)
		cancel()
		return c
	case "expired":
		c, cancel := context.WithDeadline(live, time.Now().Add(-time.Second))
		_ = cancel // released with the parent at the end of the case
		return c
	}
	return live
}

func runCase(c *Case) (string, string) {
	if c.Procs > 0 {
		old := runtime.GOMAXPROCS(c.Procs)
		defer runtime.GOMAXPROCS(old)
	}
	limit := vkit.Limit()
	wg := &fun.WaitGroup{}
	b := &bound{active: map[*wstate]bool{}}
	ctx, cancelAll := context.WithCancel(context.Background())
	defer cancelAll()
	for ri, r := range c.Rounds {
		total := units(r)
		gates := make([]chan struct{}, 0, total)
		newGate := func() chan struct{} { g := make(chan struct{}); gates = append(gates, g); return g }
		var finished atomic.Int64
		for _, w := range r.Workers {
			switch w.Kind {
			case "add-done", "inc-done":
				g := newGate()
				if w.Kind == "add-done" {
					wg.Add(1)
				} else {
					wg.Inc()
				}
				b.inc(1)
				go func() { <-g; b.dec(); wg.Done(); finished.Add(1) }()
			case "launch", "op-add":
				g := newGate()
				exit := w.Exit
				op := fun.Operation(func(context.Context) {
					<-g
					b.dec()
					finished.Add(1)
					if exit == "goexit" {
						runtime.Goexit()
					}
				})
				if w.Kind == "launch" {
					wg.Launch(launchCtx(ctx, w.Ctx), op)
				} else {
					op.Add(launchCtx(ctx, w.Ctx), wg)
				}
				b.inc(1)
			case "dotimes", "startgroup":
				var idx atomic.Int64
				launched := w.N
				if launched < 0 {
					launched = 0
				}
				mine := make([]chan struct{}, launched)
				for i := range mine {
					mine[i] = newGate()
				}
				exit := w.Exit
				op := fun.Operation(func(context.Context) {
					g := mine[idx.Add(1)-1]
					<-g
					b.dec()
					finished.Add(1)
					if exit == "goexit" {
						runtime.Goexit()
					}
				})
				if w.Kind == "dotimes" {
					wg.DoTimes(launchCtx(ctx, w.Ctx), w.N, op)
				} else {
					op.StartGroup(launchCtx(ctx, w.Ctx), wg, w.N)
				}
				b.inc(launched)
			}
		}
		if n := wg.Num(); n != total {
			return "num", fmt.Sprintf("round %d: Num()=%d after %d units of work were added", ri, n, total)
		}
		if total > 0 && wg.IsDone() {
			return "num", fmt.Sprintf("round %d: IsDone() with %d pending", ri, total)
		}
		if r.NegAdd {
			var rec any
			func() {
				defer func() { rec = recover() }()
				wg.Add(-(total + 1))
			}()
			err, _ := rec.(error)
			if rec == nil || !errors.Is(err, ers.ErrInvariantViolation) {
				return "negative", fmt.Sprintf("round %d: Add(%d) with counter %d did not panic with an invariant violation (recovered %v)", ri, -(total + 1), total, rec)
			}
			if n := wg.Num(); n != total {
				return "negative", fmt.Sprintf("round %d: Num()=%d after the rejected negative Add, want %d", ri, n, total)
			}
		}
		ws := make([]*wstate, len(r.Waiters))
		var wwg sync.WaitGroup
		early := make(chan string, len(r.Waiters)+1)
		startWaiter := func(i int) {
			w := &wstate{}
			w.ctx, w.cancel = context.WithCancel(context.Background())
			if r.Waiters[i].Background {
				w.ctx, w.cancel = context.Background(), func() {}
			}
			ws[i] = w
			via := r.Waiters[i].Via
			wwg.Add(1)
			go func() {
				defer wwg.Done()
				b.enter(w)
				switch via {
				case "operation":
					wg.Operation()(w.ctx)
				case "worker":
					_ = wg.Worker()(w.ctx)
				default:
					wg.Wait(w.ctx)
				}
				w.liveAtRet = w.ctx.Err() == nil
				min := b.leave(w)
				w.done.Store(true)
				if w.liveAtRet && min > 0 {
					early <- fmt.Sprintf("round %d: waiter %d returned with a live context while the counter was at least %d during its whole call", ri, i, min)
				}
			}()
		}
		released := 0
		tick := func() (string, string) {
			for i, w := range r.Waiters {
				if ws[i] == nil && w.StartAfter <= released {
					startWaiter(i)
				}
				if ws[i] != nil && w.CancelAfter >= 0 && w.CancelAfter <= released && !ws[i].cancelled.Load() {
					ws[i].cancelled.Store(true)
					ws[i].cancel()
				}
			}
			select {
			case why := <-early:
				return "early", why
			default:
			}
			return "", ""
		}
		if k, why := tick(); why != "" {
			return k, why
		}
		for k, gi := range r.Order {
			vkit.Yield(r.Yields[k%len(r.Yields)])
			close(gates[gi%len(gates)])
			gates[gi%len(gates)] = nil
			released++
			if k, why := tick(); why != "" {
				return k, why
			}
		}
		for _, g := range gates {
			if g != nil {
				close(g)
				released++
			}
		}
		// make sure the remaining waiters exist
		released = 1 << 30
		for i, w := range r.Waiters {
			if ws[i] == nil {
				startWaiter(i)
			}
			_ = w
		}
		// the counter reaches zero: every waiter is released
		doneCh := make(chan struct{})
		go func() { wwg.Wait(); close(doneCh) }()
		select {
		case <-doneCh:
		case <-time.After(limit):
			blocked := 0
			for _, w := range ws {
				if !w.done.Load() {
					blocked++
				}
			}
			for _, w := range ws {
				w.cancel()
			}
			return "blocked", fmt.Sprintf("round %d: %d of %d waiters are still blocked %v after the last Done (Num()=%d)", ri, blocked, len(ws), limit, wg.Num())
		}
		select {
		case why := <-early:
			return "early", why
		default:
		}
		if !vkit.Eventually(limit, func() bool { return finished.Load() == int64(total) && wg.Num() == 0 }) {
			return "num", fmt.Sprintf("round %d: Num()=%d after all %d units finished", ri, wg.Num(), total)
		}
		if !wg.IsDone() {
			return "num", fmt.Sprintf("round %d: IsDone() is false at counter zero", ri)
		}
		for _, w := range ws {
			w.cancel()
		}
	}
	return "", ""
}

func genCase(t *rapid.T) *Case {
	c := &Case{Procs: rapid.SampledFrom([]int{1, 2, 4, 16}).Draw(t, "gomaxprocs")}
	nr := rapid.IntRange(1, 3).Draw(t, "rounds")
	for ri := 0; ri < nr; ri++ {
		r := Round{NegAdd: rapid.IntRange(0, 4).Draw(t, "negAdd") == 0}
		nw := rapid.IntRange(0, 5).Draw(t, "workers")
		for i := 0; i < nw; i++ {
			w := Worker{Kind: rapid.SampledFrom([]string{"add-done", "inc-done", "launch", "dotimes", "op-add", "startgroup"}).Draw(t, "kind")}
			if w.Kind == "dotimes" || w.Kind == "startgroup" {
				w.N = rapid.SampledFrom([]int{-2, -1, 0, 0, 1, 1, 2, 2, 3, 3}).Draw(t, "n")
			}
			if w.Kind != "add-done" && w.Kind != "inc-done" && rapid.IntRange(0, 3).Draw(t, "goexit") == 0 {
				w.Exit = "goexit"
			}
			if w.Kind != "add-done" && w.Kind != "inc-done" {
				w.Ctx = rapid.SampledFrom([]string{"", "", "", "cancelled", "expired"}).Draw(t, "launchCtx")
			}
			r.Workers = append(r.Workers, w)
		}
		total := units(r)
		r.Order = rapid.Permutation(seq(total)).Draw(t, "order")
		r.Yields = rapid.SliceOfN(rapid.IntRange(0, 4), 1, 4).Draw(t, "yields")
		nwt := rapid.IntRange(1, 5).Draw(t, "waiters")
		for i := 0; i < nwt; i++ {
			w := Waiter{StartAfter: rapid.IntRange(0, total).Draw(t, "startAfter"), CancelAfter: -1, Via: rapid.SampledFrom([]string{"wait", "wait", "operation", "worker"}).Draw(t, "via")}
			if rapid.IntRange(0, 3).Draw(t, "cancels") == 0 {
				w.CancelAfter = rapid.IntRange(w.StartAfter, total).Draw(t, "cancelAfter")
			} else if rapid.IntRange(0, 2).Draw(t, "background") == 0 {
				w.Background = true
			}
			r.Waiters = append(r.Waiters, w)
		}
		c.Rounds = append(c.Rounds, r)
	}
	return c
}

func seq(n int) []int {
	out := make([]int, n)
	for i := range out {
		out[i] = i
	}
	return out
}

func TestWaitGroup(t *testing.T) {
	var rc Case
	if ok, err := vkit.ReplayCase(tWG, &rc); err != nil {
		t.Fatal(err)
	} else if ok {
		for i := 0; i < 50; i++ {
			if k, why := runCase(&rc); why != "" {
				vkit.Fail(t, tWG, "C14:"+k, rc, "%s (repetition %d)", why, i)
			}
		}
		return
	}
	reps := vkit.Pick(3, 8)
	rapid.Check(t, func(t *rapid.T) {
		if vkit.AlreadyFailed(tWG) {
			return
		}
		c := genCase(t)
		for i := 0; i < reps; i++ {
			if k, why := runCase(c); why != "" {
				vkit.Fail(t, tWG, "C14:"+k, *c, "%s (repetition %d)", why, i)
			}
		}
		maxW, cancels, bg, goexit := 0, false, false, false
		for _, r := range c.Rounds {
			if len(r.Waiters) > maxW {
				maxW = len(r.Waiters)
			}
			for _, w := range r.Waiters {
				cancels = cancels || w.CancelAfter >= 0
				bg = bg || w.Background
			}
			for _, w := range r.Workers {
				goexit = goexit || w.Exit == "goexit"
			}
		}
		cls := []string{fmt.Sprintf("rounds:%d", len(c.Rounds)), fmt.Sprintf("max-waiters:%d", maxW), fmt.Sprintf("cancel:%v", cancels), fmt.Sprintf("background-context-waiter:%v", bg), fmt.Sprintf("goexit-operation:%v", goexit)}
		vkit.CaseN(tWG, vkit.Hash(*c), reps, maxW >= 2 || len(c.Rounds) >= 2, cls, func() any { return *c })
	})
}

// ---------------------------------------------------------------------
// hook variant: the waiter's context is cancelled between its check and
// its parking on the condition variable

const tHook = "TestWaitCancelInParkWindow"

type hookCase struct {
	Others int `json:"others"`
	Procs  int `json:"gomaxprocs"`
}

func runHook(c *hookCase) string {
	if c.Procs > 0 {
		old := runtime.GOMAXPROCS(c.Procs)
		defer runtime.GOMAXPROCS(old)
	}
	limit := vkit.Limit()
	wg := &fun.WaitGroup{}
	wg.Add(1)
	defer wg.Done()
	octx, ocancel := context.WithCancel(context.Background())
	var owg sync.WaitGroup
	defer func() { ocancel(); owg.Wait() }()
	base := vkit.CountWhere("sync.(*Cond).Wait", "fun.(*WaitGroup).Wait")
	for i := 0; i < c.Others; i++ {
		owg.Add(1)
		go func() { defer owg.Done(); wg.Wait(octx) }()
	}
	vkit.Eventually(limit, func() bool { return vkit.CountWhere("sync.(*Cond).Wait", "fun.(*WaitGroup).Wait")-base >= c.Others })
	ctx, cancel := context.WithCancel(context.Background())
	defer cancel()
	var armed atomic.Bool
	armed.Store(true)
	verifhook.Set("fun.WaitGroup.Wait.before-cond-wait", func() {
		if armed.CompareAndSwap(true, false) {
			cancel()
			for i := 0; i < 50; i++ {
				runtime.Gosched()
			}
			time.Sleep(time.Millisecond)
		}
	})
	defer verifhook.Clear()
	done := make(chan struct{})
	go func() { wg.Wait(ctx); close(done) }()
	select {
	case <-done:
	case <-time.After(limit):
		return fmt.Sprintf("Wait is still blocked %v after its context was cancelled (the cancellation fell between the check and cond.Wait)", limit)
	}
	if armed.Load() {
		return "the yield point fun.WaitGroup.Wait.before-cond-wait was never reached"
	}
	return ""
}

func TestWaitCancelInParkWindow(t *testing.T) {
	var rc hookCase
	if ok, err := vkit.ReplayCase(tHook, &rc); err != nil {
		t.Fatal(err)
	} else if ok {
		if why := runHook(&rc); why != "" {
			vkit.Fail(t, tHook, "C14:park-window", rc, "%s", why)
		}
		return
	}
	rapid.Check(t, func(t *rapid.T) {
		if vkit.AlreadyFailed(tHook) {
			return
		}
		c := &hookCase{Others: rapid.IntRange(0, 3).Draw(t, "others"), Procs: rapid.SampledFrom([]int{1, 2, 16}).Draw(t, "gomaxprocs")}
		if why := runHook(c); why != "" {
			vkit.Fail(t, tHook, "C14:park-window", *c, "%s", why)
		}
		vkit.Case(tHook, vkit.Hash(*c), true, nil, func() any { return *c })
	})
}

// ---------------------------------------------------------------------
// reuse while waiters are parked: the counter touches zero and is raised
// again at once (Done immediately followed by Add), possibly several
// times, with no new Wait call in between.  A parked waiter may return at
// any of those zero crossings or stay parked; once the counter has reached
// zero for good every one of them must have returned.

const tReuse = "TestWaitGroupReuse"

type reuseCase struct {
	Waiters int   `json:"waiters"`
	Start   int   `json:"start"`  // initial counter
	Flips   []int `json:"flips"`  // per zero crossing: yield pattern between the Done and the Add
	Yields  []int `json:"yields"` // before each crossing
	Procs   int   `json:"gomaxprocs"`
}

func runReuse(c *reuseCase) (string, string) {
	if c.Procs > 0 {
		old := runtime.GOMAXPROCS(c.Procs)
		defer runtime.GOMAXPROCS(old)
	}
	limit := vkit.Limit()
	wg := &fun.WaitGroup{}
	wg.Add(c.Start)
	var wwg sync.WaitGroup
	ctx, cancel := context.WithCancel(context.Background())
	defer cancel()
	var returned atomic.Int64
	base := vkit.CountWhere("sync.(*Cond).Wait", "fun.(*WaitGroup).Wait")
	for i := 0; i < c.Waiters; i++ {
		wwg.Add(1)
		go func() { defer wwg.Done(); wg.Wait(ctx); returned.Add(1) }()
	}
	vkit.Eventually(100*time.Millisecond, func() bool {
		return vkit.CountWhere("sync.(*Cond).Wait", "fun.(*WaitGroup).Wait")-base >= c.Waiters
	})
	for i := 1; i < c.Start; i++ {
		wg.Done()
	}
	for k, gap := range c.Flips {
		vkit.Yield(c.Yields[k%len(c.Yields)])
		wg.Done() // zero ...
		vkit.Yield(gap)
		wg.Add(1) // ... and up again
	}
	wg.Done() // zero for good
	done := make(chan struct{})
	go func() { wwg.Wait(); close(done) }()
	select {
	case <-done:
	case <-time.After(limit):
		n := returned.Load()
		cancel()
		<-done
		return "blocked-after-reuse", fmt.Sprintf("%d of %d waiters are still blocked %v after the counter reached zero for good (Num()=%d); they were parked while the counter crossed zero %d times", int64(c.Waiters)-n, c.Waiters, limit, wg.Num(), len(c.Flips))
	}
	if n := wg.Num(); n != 0 {
		return "num", fmt.Sprintf("Num()=%d at the end of the reuse script", n)
	}
	return "", ""
}

func TestWaitGroupReuse(t *testing.T) {
	var rc reuseCase
	if ok, err := vkit.ReplayCase(tReuse, &rc); err != nil {
		t.Fatal(err)
	} else if ok {
		for i := 0; i < 200; i++ {
			if k, why := runReuse(&rc); why != "" {
				vkit.Fail(t, tReuse, "C14:"+k, rc, "%s (repetition %d)", why, i)
			}
		}
		return
	}
	reps := vkit.Pick(10, 30)
	rapid.Check(t, func(t *rapid.T) {
		if vkit.AlreadyFailed(tReuse) {
			return
		}
		c := &reuseCase{
			Waiters: rapid.IntRange(1, 4).Draw(t, "waiters"),
			Start:   rapid.IntRange(1, 3).Draw(t, "start"),
			Flips:   rapid.SliceOfN(rapid.SampledFrom([]int{0, 0, 0, 1, 2, 4}), 1, 4).Draw(t, "flips"),
			Yields:  rapid.SliceOfN(rapid.IntRange(0, 4), 1, 3).Draw(t, "yields"),
			Procs:   rapid.SampledFrom([]int{1, 2, 4, 16}).Draw(t, "gomaxprocs"),
		}
		for i := 0; i < reps; i++ {
			if k, why := runReuse(c); why != "" {
				vkit.Fail(t, tReuse, "C14:"+k, *c, "%s (repetition %d)", why, i)
			}
		}
		vkit.CaseN(tReuse, vkit.Hash(*c), reps, true, []string{fmt.Sprintf("waiters:%d", c.Waiters), fmt.Sprintf("crossings:%d", len(c.Flips))}, func() any { return *c })
	})
}

// ---------------------------------------------------------------------
// concurrent over-decrement

// "an Add that would make it negative panics with an invariant violation
// without changing it" - also when several such calls arrive together: with
// the counter at k, of k+m concurrent Done calls exactly m panic and the
// counter ends at zero, never below.

const tOver = "TestConcurrentOverDecrement"

type overCase struct {
	K     int `json:"k"`
	Extra int `json:"extra"`
	Procs int `json:"gomaxprocs"`
}

func runOver(c *overCase, rounds int) string {
	if c.Procs > 0 {
		old := runtime.GOMAXPROCS(c.Procs)
		defer runtime.GOMAXPROCS(old)
	}
	for r := 0; r < rounds; r++ {
		wg := &fun.WaitGroup{}
		wg.Add(c.K)
		var panics, foreign atomic.Int64
		var swg sync.WaitGroup
		var arrived atomic.Int64 // a spinning barrier: the calls start within nanoseconds of each other
		total := int64(c.K + c.Extra)
		for i := 0; i < c.K+c.Extra; i++ {
			swg.Add(1)
			go func() {
				defer swg.Done()
				defer func() {
					if rec := recover(); rec != nil {
						if err, ok := rec.(error); ok && errors.Is(err, ers.ErrInvariantViolation) {
							panics.Add(1)
						} else {
							foreign.Add(1)
						}
					}
				}()
				arrived.Add(1)
				for arrived.Load() < total {
					runtime.Gosched()
				}
				wg.Done()
			}()
		}
		// a Done that never returns (the group stays locked after a rejected
		// decrement) must not hang the check
		if finished, stuck := vkit.Bounded(4*vkit.Limit(), swg.Wait); !finished {
			return fmt.Sprintf("counter %d, %d concurrent Done calls: not all of them have returned after %v (round %d):\n%s", c.K, c.K+c.Extra, 4*vkit.Limit(), r, stuck)
		}
		var n int
		if finished, _ := vkit.Bounded(vkit.Limit(), func() { n = wg.Num() }); !finished {
			return fmt.Sprintf("counter %d, %d concurrent Done calls: Num() does not return afterwards (round %d)", c.K, c.K+c.Extra, r)
		}
		if n != 0 || panics.Load() != int64(c.Extra) || foreign.Load() != 0 {
			return fmt.Sprintf("counter %d, %d concurrent Done calls: %d of them panicked with an invariant violation (want %d, other panics %d) and Num() ended at %d (want 0) (round %d)", c.K, c.K+c.Extra, panics.Load(), c.Extra, foreign.Load(), n, r)
		}
	}
	return ""
}

func TestConcurrentOverDecrement(t *testing.T) {
	var rc overCase
	if ok, err := vkit.ReplayCase(tOver, &rc); err != nil {
		t.Fatal(err)
	} else if ok {
		if why := runOver(&rc, 5000); why != "" {
			vkit.Fail(t, tOver, "C14:negative-concurrent", rc, "%s", why)
		}
		return
	}
	rounds := vkit.Pick(150, 600)
	rapid.Check(t, func(t *rapid.T) {
		c := &overCase{K: rapid.IntRange(0, 4).Draw(t, "k"), Extra: rapid.IntRange(1, 4).Draw(t, "extra"), Procs: rapid.SampledFrom([]int{2, 4, 16}).Draw(t, "gomaxprocs")}
		if why := runOver(c, rounds); why != "" {
			vkit.Fail(t, tOver, "C14:negative-concurrent", *c, "%s", why)
		}
		vkit.CaseN(tOver, vkit.Hash(*c), rounds, c.K >= 1, []string{fmt.Sprintf("k:%d", c.K)}, func() any { return *c })
	})
}
