// Package c05 decides property C05: pubsub.Queue (and its Distributor) is
// a linearizable bounded FIFO.
package c05

import (
	"context"
	"errors"
	"fmt"
	"sort"
	"testing"
	"time"

	"github.com/anishathalye/porcupine"
	"github.com/tychoish/fun/pubsub"
	"pgregory.net/rapid"

	"verif/harness/pmodel"
	"verif/harness/vkit"
)

func TestMain(m *testing.M) { vkit.Main(m) }

// Opts selects the queue flavour.
type Opts struct {
	Unlimited bool `json:"unlimited"`
	Hard      int  `json:"hard,omitempty"`
	Soft      int  `json:"soft,omitempty"`
	Credit4   int  `json:"credit_quarters,omitempty"` // burst credit in quarters
}

func (o Opts) make() (*pubsub.Queue[int], pmodel.State) {
	if o.Unlimited {
		return pubsub.NewUnlimitedQueue[int](), pmodel.State{T: pmodel.Tracker{Kind: pmodel.Unlimited}}
	}
	q, err := pubsub.NewQueue[int](pubsub.QueueOptions{HardLimit: o.Hard, SoftQuota: o.Soft, BurstCredit: float64(o.Credit4) / 4})
	if err != nil {
		panic(err)
	}
	return q, pmodel.State{T: pmodel.NewQuota(o.Hard, o.Soft, float64(o.Credit4)/4)}
}

func genOpts(t *rapid.T) Opts {
	if rapid.IntRange(0, 3).Draw(t, "unlimited") == 0 {
		return Opts{Unlimited: true}
	}
	hard := rapid.IntRange(1, 6).Draw(t, "hard")
	return Opts{Hard: hard, Soft: rapid.IntRange(0, hard).Draw(t, "soft"), Credit4: rapid.IntRange(0, 10).Draw(t, "credit4")}
}

func errName(err error) string {
	switch {
	case err == nil:
		return ""
	case errors.Is(err, pubsub.ErrQueueFull):
		return "full"
	case errors.Is(err, pubsub.ErrQueueNoCredit):
		return "credit"
	case errors.Is(err, pubsub.ErrQueueClosed):
		return "closed"
	case errors.Is(err, context.Canceled), errors.Is(err, context.DeadlineExceeded):
		return "ctx"
	}
	return "other:" + err.Error()
}

func blocking(s vkit.Step) bool {
	return s.Op == "BlockingAdd" || s.Op == "Wait" || s.Op == "Receive"
}

func exec(q *pubsub.Queue[int]) func(int, vkit.Step, context.Context) vkit.Result {
	d := q.Distributor()
	return func(_ int, s vkit.Step, ctx context.Context) vkit.Result {
		switch s.Op {
		case "Add":
			return vkit.Result{Err: errName(q.Add(s.V))}
		case "Send":
			return vkit.Result{Err: errName(d.Send(ctx, s.V))}
		case "BlockingAdd":
			return vkit.Result{Err: errName(q.BlockingAdd(ctx, s.V))}
		case "Remove":
			v, ok := q.Remove()
			return vkit.Result{V: v, OK: ok}
		case "Wait":
			v, err := q.Wait(ctx)
			return vkit.Result{V: v, Err: errName(err), OK: err == nil}
		case "Receive":
			v, err := d.Receive(ctx)
			return vkit.Result{V: v, Err: errName(err), OK: err == nil}
		case "Len":
			return vkit.Result{V: q.Len()}
		case "DLen":
			return vkit.Result{V: d.Len()}
		case "Close":
			return vkit.Result{Err: errName(q.Close())}
		}
		panic("unknown op " + s.Op)
	}
}

// step is the sequential specification: is `out` a legal result of `in`
// in state st, and what is the state afterwards.
func step(st pmodel.State, in vkit.Step, out vkit.Result) (bool, pmodel.State) {
	switch in.Op {
	case "Add", "Send":
		if st.Closed {
			return out.Err == "closed", st
		}
		nt, err := st.T.Add()
		switch err {
		case pmodel.ErrFull:
			return out.Err == "full", st
		case pmodel.ErrCredit:
			return out.Err == "credit", st
		}
		st.T, st.Items = nt, st.Items.PushBack(in.V)
		return out.Err == "", st
	case "BlockingAdd":
		switch out.Err {
		case "ctx":
			return out.Cancelled, st
		case "closed":
			return st.Closed, st
		case "":
			if st.Closed || st.T.Cap() <= st.T.N {
				return false, st
			}
			nt, err := st.T.Add()
			if err != nil {
				return false, st
			}
			st.T, st.Items = nt, st.Items.PushBack(in.V)
			return true, st
		}
		return false, st
	case "Remove":
		if st.T.N == 0 {
			return !out.OK, st
		}
		v, rest := st.Items.PopFront()
		st.Items, st.T = rest, st.T.Remove()
		return out.OK && out.V == v, st
	case "Wait", "Receive":
		switch out.Err {
		case "ctx":
			return out.Cancelled, st
		case "closed":
			return st.Closed && st.T.N == 0, st
		case "":
			if st.T.N == 0 {
				return false, st
			}
			v, rest := st.Items.PopFront()
			st.Items, st.T = rest, st.T.Remove()
			return out.V == v, st
		}
		return false, st
	case "Len", "DLen":
		return out.V == st.T.N && (st.T.Kind == pmodel.Unlimited || out.V <= st.T.Hard), st
	case "Close":
		st.Closed = true
		return out.Err == "", st
	}
	return false, st
}

func describe(in, out any) string {
	s, r := in.(vkit.Step), out.(vkit.Result)
	switch s.Op {
	case "Add", "Send", "BlockingAdd":
		return fmt.Sprintf("%s(%d)->%q cancelled=%v", s.Op, s.V, r.Err, r.Cancelled)
	case "Len", "DLen":
		return fmt.Sprintf("%s->%d", s.Op, r.V)
	}
	return fmt.Sprintf("%s->(%d,%v,%q) cancelled=%v", s.Op, r.V, r.OK, r.Err, r.Cancelled)
}

// ---------------------------------------------------------------------
// sequential: exact step-by-step differential against the model

const tSeq = "TestQueueSequential"

type seqCase struct {
	Opts  Opts        `json:"opts"`
	Steps []vkit.Step `json:"steps"`
}

type seqRun struct {
	t            vkit.TB
	c            *seqCase
	q            *pubsub.Queue[int]
	ex           func(int, vkit.Step, context.Context) vkit.Result
	st           pmodel.State
	cctx         context.Context
	reject       int
	closeThenPop bool
}

func newSeqRun(t vkit.TB, c *seqCase) *seqRun {
	r := &seqRun{t: t, c: c}
	r.q, r.st = c.Opts.make()
	r.ex = exec(r.q)
	ctx, cancel := context.WithCancel(context.Background())
	cancel()
	r.cctx = ctx
	return r
}

func (r *seqRun) apply(s vkit.Step) {
	ctx := context.Background()
	if s.Ctx == 0 {
		ctx = r.cctx
	}
	var out vkit.Result
	// on one goroutine a call that does not return blocks for ever: the
	// model says this call cannot block (otherwise it got a cancelled
	// context)
	vkit.Watch(tSeq, "C05:seq/"+s.Op+"/blocks", vkit.Pick(20*time.Second, 60*time.Second), func() any { return r.c }, func() {
		vkit.Guard(r.t, tSeq, "C05:seq/"+s.Op, func() any { return r.c }, func() { out = r.ex(0, s, ctx) })
	})
	out.Cancelled = s.Ctx == 0
	ok, next := step(r.st, s, out)
	if !ok {
		vkit.Fail(r.t, tSeq, "C05:seq/"+s.Op, r.c, "%s is not a legal result in state %v", describe(s, out), r.st)
	}
	if out.Err == "full" || out.Err == "credit" || out.Err == "closed" {
		r.reject++
	}
	if r.st.Closed && (s.Op == "Remove" || s.Op == "Wait" || s.Op == "Receive") && out.OK {
		r.closeThenPop = true
	}
	r.st = next
	if n := r.q.Len(); n != r.st.T.N {
		vkit.Fail(r.t, tSeq, "C05:seq/"+s.Op, r.c, "after %s: Len()=%d, model %v", describe(s, out), n, r.st)
	}
}

func TestQueueSequential(t *testing.T) {
	var rc seqCase
	if ok, err := vkit.ReplayCase(tSeq, &rc); err != nil {
		t.Fatal(err)
	} else if ok {
		r := newSeqRun(t, &rc)
		for _, s := range rc.Steps {
			r.apply(s)
		}
		return
	}
	rapid.Check(t, func(t *rapid.T) {
		c := &seqCase{Opts: genOpts(t)}
		r := newSeqRun(t, c)
		next := 0
		do := func(s vkit.Step) { c.Steps = append(c.Steps, s); r.apply(s) }
		t.Repeat(map[string]func(*rapid.T){
			"Add":  func(*rapid.T) { next++; do(vkit.Step{Op: "Add", V: next, Ctx: -1}) },
			"Send": func(*rapid.T) { next++; do(vkit.Step{Op: "Send", V: next, Ctx: -1}) },
			"BlockingAdd": func(t *rapid.T) {
				next++
				s := vkit.Step{Op: "BlockingAdd", V: next, Ctx: -1}
				// a live context only where the model says the call cannot block
				if (!r.st.Closed && r.st.T.Cap() <= r.st.T.N) || rapid.IntRange(0, 3).Draw(t, "cancelled") == 0 {
					s.Ctx = 0
				}
				do(s)
			},
			"Remove": func(*rapid.T) { do(vkit.Step{Op: "Remove", Ctx: -1}) },
			"Wait": func(t *rapid.T) {
				s := vkit.Step{Op: rapid.SampledFrom([]string{"Wait", "Receive"}).Draw(t, "via"), Ctx: -1}
				if (r.st.T.N == 0 && !r.st.Closed) || rapid.IntRange(0, 3).Draw(t, "cancelled") == 0 {
					s.Ctx = 0
				}
				do(s)
			},
			"Len": func(t *rapid.T) {
				do(vkit.Step{Op: rapid.SampledFrom([]string{"Len", "DLen"}).Draw(t, "via"), Ctx: -1})
			},
			"Close": func(*rapid.T) { do(vkit.Step{Op: "Close", Ctx: -1}) },
		})
		cc := *c
		cc.Steps = append([]vkit.Step{}, c.Steps...)
		cls := []string{fmt.Sprintf("unlimited=%v", c.Opts.Unlimited)}
		if r.reject > 0 {
			cls = append(cls, "rejection")
		}
		if r.closeThenPop {
			cls = append(cls, "pop-after-close")
		}
		vkit.Case(tSeq, vkit.Hash(cc), r.reject > 0 || r.closeThenPop, cls, func() any { return cc })
	})
}

// ---------------------------------------------------------------------
// concurrent: every history is linearizable

const tLin = "TestQueueLinearizable"

type linCase struct {
	Opts    Opts         `json:"opts"`
	Prefill int          `json:"prefill,omitempty"` // Adds applied (to the queue and to the model) before the threads start
	Prog    vkit.Program `json:"program"`
	History []string     `json:"history,omitempty"`
}

func runLin(t vkit.TB, c *linCase, reps int) (overlaps int, released int) {
	for i := 0; i < reps; i++ {
		q, init := c.Opts.make()
		for k := 0; k < c.Prefill; k++ {
			in := vkit.Step{Op: "Add", V: 9000 + k, Ctx: -1}
			out := exec(q)(0, in, context.Background())
			ok, st := step(init, in, out)
			if !ok {
				vkit.Fail(t, tLin, "C05:prefill", *c, "prefill Add %d returned %q, which the sequential model does not allow", k, out.Err)
			}
			init = st
		}
		model := porcupine.Model{
			Init:              func() any { return init },
			Step:              func(st, in, out any) (bool, any) { return step(st.(pmodel.State), in.(vkit.Step), out.(vkit.Result)) },
			DescribeOperation: describe,
		}
		r := &vkit.Runner{Blocking: blocking, Exec: exec(q)}
		r.OnHang = func(stacks string) {
			vkit.Fail(t, tLin, "C05:hang", *c, "the program makes no progress although every context was cancelled: calls are stuck inside the library (repetition %d of %d)\n%s", i, reps, stacks)
		}
		h, rel := r.Run(c.Prog)
		if rel {
			released++
		}
		ops := h.Ops()
		overlaps += vkit.Overlaps(ops)
		ok, unknown := vkit.Linearizable(model, ops)
		if unknown {
			vkit.Class(tLin, "checker-timeout")
		}
		if !ok {
			sort.Slice(ops, func(i, j int) bool { return ops[i].Call < ops[j].Call })
			cc := *c
			for _, o := range ops {
				cc.History = append(cc.History, fmt.Sprintf("g%d [%d,%d] %s", o.ClientId, o.Call, o.Return, describe(o.Input, o.Output)))
			}
			vkit.Fail(t, tLin, "C05:linearizable", cc, "history of the queue is not linearizable (repetition %d of %d)", i, reps)
		}
	}
	return
}

var linContentionOps = []string{"BlockingAdd", "BlockingAdd", "BlockingAdd", "Add", "Send", "Remove", "Remove", "Remove", "Wait", "Len", "Len", "Close", "cancel"}

var linOps = []string{"Add", "Add", "Send", "BlockingAdd", "BlockingAdd", "Remove", "Remove", "Wait", "Wait", "Receive", "Len", "DLen", "Close", "cancel"}

func TestQueueLinearizable(t *testing.T) {
	var rc linCase
	if ok, err := vkit.ReplayCase(tLin, &rc); err != nil {
		t.Fatal(err)
	} else if ok {
		rc.History = nil
		runLin(t, &rc, 300)
		return
	}
	reps := vkit.Pick(5, 12)
	rapid.Check(t, func(t *rapid.T) {
		c := &linCase{Opts: genOpts(t)}
		c.Prog.Procs = rapid.SampledFrom([]int{1, 2, 4, 16}).Draw(t, "gomaxprocs")
		ng := rapid.IntRange(2, 4).Draw(t, "goroutines")
		next := 0
		closes := 0
		// half of the bounded cases are "slot contention" programs: the
		// queue starts at (or one below) its soft quota and the threads
		// mostly add, block-add and remove, so that several producers
		// compete for the slot one removal frees.
		ops := linOps
		contention := !c.Opts.Unlimited && rapid.Bool().Draw(t, "contention")
		if contention {
			soft := c.Opts.Soft
			if soft <= 0 {
				soft = c.Opts.Hard
			}
			c.Prefill = soft - rapid.IntRange(0, 1).Draw(t, "belowQuota")
			if c.Prefill < 0 {
				c.Prefill = 0
			}
			ops = linContentionOps
		}
		// "close after free": the queue is full and producers are parked
		// in BlockingAdd; one thread frees a slot, closes the queue at
		// once and then looks at it (Len, Add) - whatever a woken
		// producer does must be consistent with what that thread saw
		closeAfterFree := contention && rapid.IntRange(0, 3).Draw(t, "closeAfterFree") == 0
		if closeAfterFree {
			soft := c.Opts.Soft
			if soft <= 0 {
				soft = c.Opts.Hard
			}
			c.Prefill = soft
			y := func() int { return rapid.IntRange(0, 2).Draw(t, "yield") }
			next++
			c.Prog.Threads = append(c.Prog.Threads, []vkit.Step{
				{Op: "Len", Ctx: -1, Yield: 4}, // lets the producers park first
				{Op: "Remove", Ctx: -1, Yield: rapid.IntRange(0, 8).Draw(t, "settle")},
				{Op: "Close", Ctx: -1, Yield: y()},
				{Op: "Len", Ctx: -1, Yield: y()},
				{Op: "Add", V: next, Ctx: -1, Yield: y()},
				{Op: "Len", Ctx: -1, Yield: y()},
			})
			closes = 1
			ng--
			ops = []string{"BlockingAdd", "BlockingAdd", "Len"}
		}
		// "add then close": consumers are parked on the empty queue; one
		// thread adds and closes at once (items added before Close stay
		// removable)
		addThenClose := !contention && !closeAfterFree && rapid.IntRange(0, 7).Draw(t, "addThenClose") == 0
		if addThenClose {
			y := func() int { return rapid.IntRange(0, 2).Draw(t, "yield") }
			next++
			c.Prog.Threads = append(c.Prog.Threads, []vkit.Step{
				{Op: "Len", Ctx: -1, Yield: 4},
				{Op: "Add", V: next, Ctx: -1, Yield: rapid.IntRange(0, 8).Draw(t, "settle")},
				{Op: "Close", Ctx: -1, Yield: y()},
				{Op: "Len", Ctx: -1, Yield: y()},
				{Op: "Remove", Ctx: -1, Yield: y()},
			})
			closes = 1
			ng--
			ops = []string{"Wait", "Receive", "Wait", "Len"}
		}
		for g := 0; g < ng; g++ {
			n := rapid.IntRange(1, 7).Draw(t, "nops")
			if closeAfterFree || addThenClose {
				n = rapid.IntRange(1, 2).Draw(t, "nopsParkedConsumers")
			}
			var th []vkit.Step
			for i := 0; i < n; i++ {
				s := vkit.Step{Op: rapid.SampledFrom(ops).Draw(t, "op"), Ctx: -1, Yield: rapid.IntRange(0, 4).Draw(t, "yield")}
				switch s.Op {
				case "Add", "Send", "BlockingAdd":
					next++
					s.V = next
				case "Close":
					if closes++; closes > 1 || rapid.IntRange(0, 2).Draw(t, "keepClose") != 0 {
						s.Op = "Len"
					}
				}
				if blocking(s) {
					s.Ctx = c.Prog.NCtx
					c.Prog.NCtx++
				}
				th = append(th, s)
			}
			c.Prog.Threads = append(c.Prog.Threads, th)
		}
		// cancel steps target one of the blocking contexts
		for g := range c.Prog.Threads {
			for i := range c.Prog.Threads[g] {
				if s := &c.Prog.Threads[g][i]; s.Op == "cancel" {
					if c.Prog.NCtx == 0 {
						s.Op, s.Ctx = "Len", -1
					} else {
						s.Ctx = rapid.IntRange(0, c.Prog.NCtx-1).Draw(t, "cancelTarget")
					}
				}
			}
		}
		ov, rel := runLin(t, c, reps)
		cls := []string{fmt.Sprintf("unlimited=%v", c.Opts.Unlimited), fmt.Sprintf("goroutines=%d", ng), fmt.Sprintf("overlap=%v", ov > 0), fmt.Sprintf("slot-contention=%v", contention)}
		if rel > 0 {
			cls = append(cls, "leftovers-released")
		}
		vkit.CaseN(tLin, vkit.Hash(*c), reps, ov > 0, cls, func() any { return *c })
	})
}
