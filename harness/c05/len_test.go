package c05

import (
	"fmt"
	"runtime"
	"sync"
	"sync/atomic"
	"testing"

	"github.com/tychoish/fun/pubsub"
	"pgregory.net/rapid"

	"verif/harness/vkit"
)

// "Len is the exact number of queued items": under sustained concurrent
// traffic whose effect on the length is bounded - every worker adds one item
// and removes one, over and over, on a queue that holds P items - every
// value Len returns lies between P and P+W, because in every sequential
// order of the calls the length does.  (The short generated programs of
// TestQueueLinearizable check single Len calls exactly; a Len that is put
// together from several reads is torn only when many operations pass
// between the reads, which needs this volume.)

const tLen = "TestLenUnderTraffic"

type lenCase struct {
	Prefill   int  `json:"prefill"`
	Workers   int  `json:"workers"`
	Observers int  `json:"observers"`
	Rounds    int  `json:"rounds"`
	ViaDist   bool `json:"via_distributor"` // Len of the Distributor
	Procs     int  `json:"gomaxprocs"`
}

func runLen(c *lenCase) string {
	if c.Procs > 0 {
		old := runtime.GOMAXPROCS(c.Procs)
		defer runtime.GOMAXPROCS(old)
	}
	q := pubsub.NewUnlimitedQueue[int]()
	for i := 0; i < c.Prefill; i++ {
		_ = q.Add(i)
	}
	length := q.Len
	if c.ViaDist {
		length = q.Distributor().Len
	}
	var stop atomic.Bool
	var bad atomic.Value
	var wg, owg sync.WaitGroup
	for o := 0; o < c.Observers; o++ {
		owg.Add(1)
		go func() {
			defer owg.Done()
			for !stop.Load() {
				if n := length(); n < c.Prefill || n > c.Prefill+c.Workers {
					bad.Store(fmt.Sprintf("Len()=%d while %d workers each alternate one Add and one Remove on a queue of %d items: the length is between %d and %d in every order of the calls", n, c.Workers, c.Prefill, c.Prefill, c.Prefill+c.Workers))
					return
				}
			}
		}()
	}
	for w := 0; w < c.Workers; w++ {
		wg.Add(1)
		go func(w int) {
			defer wg.Done()
			for r := 0; r < c.Rounds && bad.Load() == nil; r++ {
				_ = q.Add(1000 + w)
				_, _ = q.Remove()
			}
		}(w)
	}
	wg.Wait()
	stop.Store(true)
	owg.Wait()
	if why, _ := bad.Load().(string); why != "" {
		return why
	}
	if n := q.Len(); n != c.Prefill {
		return fmt.Sprintf("Len()=%d after every worker has removed as many items as it added; %d were there before", n, c.Prefill)
	}
	return ""
}

func TestLenUnderTraffic(t *testing.T) {
	var rc lenCase
	if ok, err := vkit.ReplayCase(tLen, &rc); err != nil {
		t.Fatal(err)
	} else if ok {
		for i := 0; i < 10; i++ {
			if why := runLen(&rc); why != "" {
				vkit.Fail(t, tLen, "C05:len-under-traffic", rc, "%s (repetition %d)", why, i)
			}
		}
		return
	}
	rapid.Check(t, func(t *rapid.T) {
		c := &lenCase{
			Prefill:   rapid.IntRange(0, 8).Draw(t, "prefill"),
			Workers:   rapid.IntRange(2, 6).Draw(t, "workers"),
			Observers: rapid.IntRange(1, 3).Draw(t, "observers"),
			Rounds:    rapid.IntRange(2000, 20000).Draw(t, "rounds"),
			ViaDist:   rapid.Bool().Draw(t, "viaDistributor"),
			Procs:     rapid.SampledFrom([]int{2, 4, 16}).Draw(t, "gomaxprocs"),
		}
		if why := runLen(c); why != "" {
			vkit.Fail(t, tLen, "C05:len-under-traffic", *c, "%s", why)
		}
		vkit.CaseN(tLen, vkit.Hash(*c), c.Rounds*c.Workers, true, []string{fmt.Sprintf("workers:%d", c.Workers)}, func() any { return *c })
	})
}
