// Package c09 decides property C09: the broker makes progress while its
// subscribers read, and shuts down cleanly.
package c09

import (
	"context"
	"fmt"
	"runtime"
	"strings"
	"sync"
	"sync/atomic"
	"testing"
	"time"

	"github.com/tychoish/fun"
	"github.com/tychoish/fun/pubsub"
	"pgregory.net/rapid"

	"verif/harness/vkit"
)

func TestMain(m *testing.M) { vkit.Main(m) }

const tProg = "TestBrokerProgressAndShutdown"

type Case struct {
	Backend    string `json:"backend"` // channel | queue | deque | queue-bounded | lifo | queue-filtered | queue-shared | chan-shedding | deque-bounded | deque-quota | queue-quota | chan-polling
	Capacity   int    `json:"capacity,omitempty"`
	Parallel   bool   `json:"parallel_dispatch"`
	Workers    int    `json:"worker_pool_size"`
	BufferSize int    `json:"buffer_size"`
	Subs       int    `json:"subscribers"`
	Bursts     []int  `json:"bursts"`              // sizes of the publish bursts
	ReadYield  int    `json:"read_yield"`          // how slowly the subscribers read
	ReaderLate bool   `json:"reader_late"`         // the subscribers start reading only after the first burst was published (queue back-ends)
	Sustained  int    `json:"sustained,omitempty"` // after the bursts: that many messages published back-to-back to fast readers
	StatsCalls int    `json:"cancelled_stats_calls"`
	Stop       string `json:"stop"` // stop | cancel | wait-then-stop | deadline (the broker's context expires by itself)
	// ForeignUnsubs: Unsubscribe calls for channels that were never
	// subscribed, issued before the traffic
	ForeignUnsubs int `json:"foreign_unsubscribes,omitempty"`
	// Leavers subscribe and unsubscribe straight away, from one goroutine,
	// and never look at their channel again: once Unsubscribe has returned
	// they are no subscribers, and nothing may wait for them
	Leavers int `json:"leavers,omitempty"`
	// RacingSubscribes: that many Subscribe calls whose own context is
	// cancelled while they are in flight; a call that returns a channel
	// unsubscribes it again, a call that returns nil has subscribed nothing
	RacingSubscribes int    `json:"racing_subscribes,omitempty"`
	StopAt           string `json:"stop_at"` // idle | backlog | mid-publish
	Procs            int    `json:"gomaxprocs"`
}

func (c *Case) lossless() bool {
	return c.BufferSize == 0 && (c.Backend == "channel" || c.Backend == "queue" || c.Backend == "deque" || c.Backend == "queue-filtered")
}

// passes is the output filter of the queue-filtered back-end; wanted counts
// the messages among the first n published values (0..n-1) that pass it.
func passes(v int) bool { return v%3 != 2 }

func (c *Case) wanted(n int) int {
	if c.Backend != "queue-filtered" {
		return n
	}
	return n - n/3
}

// buffersBackend: the back-end takes a whole burst while nobody reads (it
// buffers without bound, or sheds).  A bounded blocking deque does not: it
// applies back-pressure, and Publish rightly waits for the subscribers.
func (c *Case) buffersBackend() bool {
	return c.Backend != "channel" && c.Backend != "deque-bounded" && c.Backend != "deque-quota"
}

// mkBroker builds the broker of the case.  The second result, when not nil,
// releases what the back-end holds besides the broker (the competing
// consumer of a shared queue); it runs after the shutdown checks.
func mkBroker(ctx context.Context, c *Case) (*pubsub.Broker[int], func()) {
	b, release := mkBackend(ctx, c)
	return b, release
}

func mkBackend(ctx context.Context, c *Case) (*pubsub.Broker[int], func()) {
	opts := pubsub.BrokerOptions{ParallelDispatch: c.Parallel, WorkerPoolSize: c.Workers, BufferSize: c.BufferSize}
	switch c.Backend {
	case "channel":
		return pubsub.NewBroker[int](ctx, opts), nil
	case "queue":
		return pubsub.NewQueueBroker[int](ctx, pubsub.NewUnlimitedQueue[int](), opts), nil
	case "deque":
		return pubsub.NewDequeBroker[int](ctx, pubsub.NewUnlimitedDeque[int](), opts), nil
	case "queue-bounded":
		q, err := pubsub.NewQueue[int](pubsub.QueueOptions{HardLimit: c.Capacity, SoftQuota: c.Capacity})
		if err != nil {
			panic(err)
		}
		return pubsub.NewQueueBroker[int](ctx, q, opts), nil
	case "queue-filtered":
		// a distributor that drops every third message on the way out
		return pubsub.MakeDistributorBroker[int](ctx, pubsub.NewUnlimitedQueue[int]().Distributor().WithOutputFilter(passes), opts), nil
	case "queue-shared":
		// the broker is one of two consumers of a queue: an application
		// goroutine with a context of its own is parked in Queue.Wait
		// before the broker's workers are.  It takes part of the
		// traffic (the broker is not lossless for its subscribers), and
		// the broker must still make progress and shut down on its own.
		q := pubsub.NewUnlimitedQueue[int]()
		cctx, ccancel := context.WithCancel(context.Background())
		done := make(chan struct{})
		go func() {
			defer close(done)
			for {
				if _, err := q.Wait(cctx); err != nil {
					return
				}
			}
		}()
		vkit.Eventually(vkit.Limit(), func() bool {
			return vkit.CountWhere("fun/pubsub.(*Queue[...]).Wait", "sync.(*Cond).Wait") > 0
		})
		return pubsub.NewQueueBroker[int](ctx, q, opts), func() {
			// bounded: a consumer that is not woken by the end of its
			// context shows up in the goroutine check of the case
			ccancel()
			select {
			case <-done:
			case <-time.After(vkit.Limit()):
			}
		}
	case "deque-bounded", "deque-quota":
		// a deque with a fixed capacity, or one limited by queue options
		// (hard limit, a soft quota that moves with the traffic, burst
		// credit): the event loop's Send waits for room, which the
		// workers make
		o := pubsub.DequeOptions{Capacity: c.Capacity}
		if c.Backend == "deque-quota" {
			o = pubsub.DequeOptions{QueueOptions: &pubsub.QueueOptions{HardLimit: c.Capacity + 2, SoftQuota: c.Capacity, BurstCredit: 1}}
		}
		dq, err := pubsub.NewDeque[int](o)
		if err != nil {
			panic(err)
		}
		return pubsub.NewDequeBroker[int](ctx, dq, opts), nil
	case "queue-quota":
		q, err := pubsub.NewQueue[int](pubsub.QueueOptions{HardLimit: c.Capacity + 2, SoftQuota: c.Capacity, BurstCredit: 1})
		if err != nil {
			panic(err)
		}
		return pubsub.NewQueueBroker[int](ctx, q, opts), nil
	case "chan-polling":
		// a channel distributor in non-blocking mode: Send sheds when
		// the buffer is full, Receive reports a skipped operation when
		// it is empty and the workers ask again
		return pubsub.MakeDistributorBroker[int](ctx, pubsub.DistributorChanOp(fun.NonBlocking(make(chan int, c.Capacity))), opts), nil
	case "chan-shedding":
		// a user-built distributor over a buffered channel whose Send
		// never blocks: when the buffer is full the message is shed
		// (ErrNonBlockingChannelOperationSkipped, a transient error)
		ch := fun.Blocking(make(chan int, c.Capacity))
		d := pubsub.MakeDistributor(ch.NonBlocking().Send().Processor(), ch.Receive().Producer(), ch.Len)
		return pubsub.MakeDistributorBroker[int](ctx, d, opts), nil
	default:
		return pubsub.NewLIFOBroker[int](ctx, opts, c.Capacity), nil
	}
}

func within(limit time.Duration, fn func()) bool {
	done := make(chan struct{})
	go func() { fn(); close(done) }()
	select {
	case <-done:
		return true
	case <-time.After(limit):
		return false
	}
}

func brokerGoroutines() []string {
	var out []string
	for _, g := range vkit.FunGoroutines() {
		if strings.Contains(g, "fun/pubsub.") {
			out = append(out, g)
		}
	}
	return out
}

func runCase(c *Case) (string, string) {
	if c.Procs > 0 {
		old := runtime.GOMAXPROCS(c.Procs)
		defer runtime.GOMAXPROCS(old)
	}
	limit := vkit.Limit()
	if !vkit.Eventually(limit, func() bool { return len(brokerGoroutines()) == 0 }) {
		return "harness", "broker goroutines of an earlier case are still alive"
	}
	parent, cancelParent := context.WithCancel(context.Background())
	defer cancelParent()
	// stop mode "deadline": the broker lives in a context that ends with
	// context.DeadlineExceeded when the run is to end
	var expire func()
	if c.Stop == "deadline" {
		dctx := newExpiringContext(parent)
		parent, expire = dctx, dctx.expire
	}
	b, release := mkBroker(parent, c)
	if release != nil {
		defer release()
	}
	ctx := context.Background()
	// a Publish on a stopped broker only returns through its own context
	pubCtx, cancelPub := context.WithCancel(ctx)
	defer cancelPub()

	// cancelled Stats calls must not wedge the event loop
	for i := 0; i < c.StatsCalls; i++ {
		cctx, ccancel := context.WithCancel(ctx)
		ccancel()
		if !within(limit, func() { b.Stats(cctx) }) {
			return "api-blocks", "Stats with a cancelled context does not return"
		}
	}
	if c.StatsCalls > 0 {
		if !within(limit, func() { b.Stats(ctx) }) {
			return "stats-wedge", fmt.Sprintf("after %d Stats calls with a cancelled context the broker no longer answers Stats (nor anything else) within %v", c.StatsCalls, limit)
		}
	}

	var received atomic.Int64
	stopReaders := make(chan struct{})
	var rwg sync.WaitGroup
	chans := make([]chan int, c.Subs)
	for i := range chans {
		var ch chan int
		if !within(limit, func() { ch = b.Subscribe(ctx) }) || ch == nil {
			return "api-blocks", fmt.Sprintf("Subscribe %d does not return a channel within %v", i, limit)
		}
		chans[i] = ch
	}
	for i := 0; i < c.ForeignUnsubs; i++ {
		if !within(limit, func() { b.Unsubscribe(ctx, make(chan int)) }) {
			return "api-blocks", "Unsubscribe of a channel that was never subscribed does not return"
		}
	}
	for i := 0; i < c.Leavers; i++ {
		var ch chan int
		if !within(limit, func() { ch = b.Subscribe(ctx) }) || ch == nil {
			return "api-blocks", "Subscribe (of a subscriber that leaves at once) does not return a channel"
		}
		if !within(limit, func() { b.Unsubscribe(ctx, ch) }) {
			return "api-blocks", "Unsubscribe (right after Subscribe) does not return"
		}
	}
	for i := 0; i < c.RacingSubscribes; i++ {
		sctx, scancel := context.WithCancel(ctx)
		got := make(chan chan int, 1)
		go func() { got <- b.Subscribe(sctx) }()
		vkit.Yield(i % 3)
		scancel()
		select {
		case ch := <-got:
			if ch != nil && !within(limit, func() { b.Unsubscribe(ctx, ch) }) {
				return "api-blocks", "Unsubscribe does not return"
			}
		case <-time.After(limit):
			return "api-blocks", "Subscribe has not returned after its own context was cancelled"
		}
	}
	if c.Leavers > 0 || c.RacingSubscribes > 0 {
		n := -1
		if !vkit.Eventually(limit, func() bool { n = b.Stats(ctx).Subscriptions; return n == c.Subs }) {
			return "ghost-subscription", fmt.Sprintf("%d subscribers subscribed and unsubscribed (each from one goroutine, in that order) and %d Subscribe calls were cancelled in flight (those that got a channel unsubscribed it, those that got nil have nothing to unsubscribe); %v later the broker still counts %d subscriptions, %d are left (BufferSize %d)", c.Leavers, c.RacingSubscribes, limit, n, c.Subs, c.BufferSize)
		}
	}
	startReaders := func() {
		for _, ch := range chans {
			rwg.Add(1)
			go func(ch chan int) {
				defer rwg.Done()
				for {
					select {
					case <-ch:
						received.Add(1)
						vkit.Yield(c.ReadYield)
					case <-stopReaders:
						return
					}
				}
			}(ch)
		}
	}
	readersStarted := false
	if !(c.ReaderLate && c.buffersBackend()) {
		startReaders()
		readersStarted = true
	}
	published := 0
	var stopped atomic.Bool
	doStop := func() (string, string) {
		stopped.Store(true)
		switch c.Stop {
		case "deadline":
			expire()
		case "cancel":
			cancelParent()
		case "wait-then-stop":
			// a Wait that is already in progress must not keep Stop out
			go b.Wait(ctx)
			time.Sleep(time.Millisecond)
			fallthrough
		default:
			if !within(limit, b.Stop) {
				return "stop-blocks", fmt.Sprintf("Stop has not returned after %v (stop mode %s)", limit, c.Stop)
			}
		}
		cancelPub()
		return "", ""
	}
	for bi, n := range c.Bursts {
		midPublish := c.StopAt == "mid-publish" && bi == len(c.Bursts)-1
		var pubDone chan struct{}
		if midPublish {
			pubDone = make(chan struct{})
		}
		publish := func() bool {
			for i := 0; i < n; i++ {
				ok := within(2*limit, func() { b.Publish(pubCtx, published+i) })
				if !ok {
					return false
				}
			}
			return true
		}
		if midPublish {
			var okPub atomic.Bool
			go func() { okPub.Store(publish()); close(pubDone) }()
			vkit.Yield(c.ReadYield)
			if k, why := doStop(); why != "" {
				return k, why
			}
			select {
			case <-pubDone:
			case <-time.After(3 * limit):
				return "api-blocks", "Publish calls are still blocked after the broker was stopped and their context cancelled"
			}
			break
		}
		if !publish() {
			return "publish-stuck", fmt.Sprintf("a Publish of burst %d (size %d) has not returned after %v although every subscriber keeps receiving", bi, n, 2*limit)
		}
		published += n
		if !readersStarted {
			startReaders()
			readersStarted = true
		}
		if c.StopAt == "backlog" && bi == len(c.Bursts)-1 {
			break
		}
		// progress: everything accepted reaches the reading subscribers
		if c.lossless() {
			want := int64(c.wanted(published) * c.Subs)
			if !vkit.Eventually(limit, func() bool { return received.Load() >= want }) {
				return "stalled", fmt.Sprintf("%d of %d deliveries arrived %v after burst %d (size %d): the dispatcher stalls although every subscriber keeps receiving (backlog %d)", received.Load(), want, limit, bi, n, b.Stats(ctx).BufferDepth)
			}
		} else if !vkit.Eventually(limit, func() bool { return b.Stats(ctx).BufferDepth == 0 }) {
			return "stalled", fmt.Sprintf("the backlog stays at %d for %v after burst %d although every subscriber keeps receiving", b.Stats(ctx).BufferDepth, limit, bi)
		}
	}
	// sustained traffic: a defect that loses one wake-up in several
	// thousand dispatches only shows under a long uninterrupted stream.
	// Progress is judged by a watchdog: neither the publisher nor the
	// readers advance for the quiescence limit although nothing was
	// stopped.
	if c.Sustained > 0 && !stopped.Load() {
		var sent atomic.Int64
		pubEnd := make(chan struct{})
		go func() {
			defer close(pubEnd)
			for i := 0; i < c.Sustained && pubCtx.Err() == nil; i++ {
				b.Publish(pubCtx, published+i)
				sent.Add(1)
			}
		}()
		last, since := int64(-1), time.Now()
		for done := false; !done; {
			select {
			case <-pubEnd:
				done = true
			case <-time.After(2 * time.Millisecond):
				if cur := sent.Load() + received.Load(); cur != last {
					last, since = cur, time.Now()
				} else if time.Since(since) > limit {
					cancelPub()
					<-pubEnd
					return "stalled", fmt.Sprintf("sustained traffic: no progress for %v after %d of %d messages were published and %d deliveries made, although every subscriber keeps receiving and nothing was stopped (backlog %d)", limit, sent.Load(), c.Sustained, received.Load(), b.Stats(ctx).BufferDepth)
				}
			}
		}
		published += c.Sustained
		if c.lossless() {
			// the backlog of a buffering back-end may take a while to
			// drain: only a standstill is a stall
			want := int64(c.wanted(published) * c.Subs)
			lastR, sinceR := int64(-1), time.Now()
			for received.Load() < want {
				if cur := received.Load(); cur != lastR {
					lastR, sinceR = cur, time.Now()
				} else if time.Since(sinceR) > limit {
					return "stalled", fmt.Sprintf("sustained traffic: the deliveries stand still at %d of %d for %v after the last Publish returned (backlog %d)", cur, want, limit, b.Stats(ctx).BufferDepth)
				}
				time.Sleep(time.Millisecond)
			}
		}
	}
	if !stopped.Load() {
		if k, why := doStop(); why != "" {
			return k, why
		}
	}
	// shutdown: Wait returns, the API calls return once their own context
	// is done, no broker goroutine remains
	if !within(limit, func() { b.Wait(ctx) }) {
		return "wait-blocks", fmt.Sprintf("Wait has not returned %v after %s", limit, c.Stop)
	}
	if !within(limit, b.Stop) {
		return "stop-blocks", "Stop after shutdown does not return"
	}
	dctx, dcancel := context.WithCancel(ctx)
	apiDone := make(chan string, 4)
	go func() { b.Publish(dctx, -1); apiDone <- "Publish" }()
	go func() { _ = b.Subscribe(dctx); apiDone <- "Subscribe" }()
	go func() { b.Unsubscribe(dctx, chans[0]); apiDone <- "Unsubscribe" }()
	go func() { b.Stats(dctx); apiDone <- "Stats" }()
	vkit.Yield(c.ReadYield)
	dcancel()
	for i := 0; i < 4; i++ {
		select {
		case <-apiDone:
		case <-time.After(limit):
			return "api-blocks", fmt.Sprintf("an API call on the stopped broker has not returned %v after its own context was cancelled (%d of 4 returned)", limit, i)
		}
	}
	close(stopReaders)
	rwg.Wait()
	if release != nil {
		release()
		release = nil
	}
	var left []string
	if !vkit.Eventually(limit, func() bool { left = brokerGoroutines(); return len(left) == 0 }) {
		return "leak", fmt.Sprintf("%d broker goroutines are still alive after shutdown:\n%s", len(left), strings.Join(left, "\n--\n"))
	}
	return "", ""
}

func genCase(t *rapid.T) *Case {
	c := &Case{
		Backend:    rapid.SampledFrom([]string{"channel", "queue", "deque", "deque", "queue-bounded", "lifo", "queue-filtered", "queue-shared", "chan-shedding", "deque-bounded", "deque-quota", "queue-quota", "chan-polling"}).Draw(t, "backend"),
		Capacity:   rapid.IntRange(1, 4).Draw(t, "capacity"),
		Parallel:   rapid.Bool().Draw(t, "parallel"),
		Workers:    rapid.SampledFrom([]int{-2, -1, 0, 0, 1, 1, 2, 3}).Draw(t, "workers"), // "if unset this defaults to 1"
		Subs:       rapid.IntRange(1, 3).Draw(t, "subscribers"),
		ReadYield:  rapid.IntRange(0, 4).Draw(t, "readYield"),
		ReaderLate: rapid.Bool().Draw(t, "readerLate"),
		Stop:       rapid.SampledFrom([]string{"stop", "cancel", "wait-then-stop", "deadline"}).Draw(t, "stop"),
		StopAt:     rapid.SampledFrom([]string{"idle", "idle", "backlog", "mid-publish"}).Draw(t, "stopAt"),
		Procs:      rapid.SampledFrom([]int{1, 2, 4, 16}).Draw(t, "gomaxprocs"),
	}
	if rapid.IntRange(0, 3).Draw(t, "buffered") == 0 {
		c.BufferSize = rapid.IntRange(1, 2).Draw(t, "bufferSize")
	}
	if rapid.IntRange(0, 2).Draw(t, "stats") == 0 {
		c.StatsCalls = rapid.IntRange(1, 5).Draw(t, "statsCalls")
	}
	if rapid.IntRange(0, 4).Draw(t, "sustained") == 0 {
		c.Sustained = rapid.SampledFrom([]int{2000, 10000, 30000}).Draw(t, "sustainedN")
		c.ReadYield = 0
		c.StopAt = "idle"
	}
	if rapid.IntRange(0, 3).Draw(t, "foreignUnsubs") == 0 {
		c.ForeignUnsubs = rapid.IntRange(1, 3).Draw(t, "foreignUnsubsN")
	}
	if rapid.IntRange(0, 2).Draw(t, "leavers") == 0 {
		c.Leavers = rapid.IntRange(1, 4).Draw(t, "leaversN")
	}
	if rapid.IntRange(0, 3).Draw(t, "racingSubscribes") == 0 {
		c.RacingSubscribes = rapid.IntRange(50, 400).Draw(t, "racingSubscribesN")
	}
	nb := rapid.IntRange(1, 3).Draw(t, "bursts")
	for i := 0; i < nb; i++ {
		switch rapid.IntRange(0, 2).Draw(t, "burstKind") {
		case 0:
			c.Bursts = append(c.Bursts, rapid.IntRange(1, 3).Draw(t, "burst"))
		case 1:
			c.Bursts = append(c.Bursts, rapid.IntRange(2, 30).Draw(t, "burst"))
		default:
			c.Bursts = append(c.Bursts, rapid.IntRange(30, 200).Draw(t, "burst"))
		}
	}
	return c
}

func TestBrokerProgressAndShutdown(t *testing.T) {
	var rc Case
	run := runCase
	if ok, err := vkit.ReplayCase(tProg, &rc); err != nil {
		t.Fatal(err)
	} else if ok {
		for i := 0; i < 20; i++ {
			if k, why := run(&rc); why != "" {
				vkit.Fail(t, tProg, "C09:"+k, rc, "%s (repetition %d)", why, i)
			}
		}
		return
	}
	reps := vkit.Pick(2, 3)
	rapid.Check(t, func(t *rapid.T) {
		if vkit.AlreadyFailed(tProg) {
			return
		}
		c := genCase(t)
		for i := 0; i < reps; i++ {
			if k, why := run(c); why != "" {
				vkit.Fail(t, tProg, "C09:"+k, *c, "%s (repetition %d)", why, i)
			}
		}
		maxBurst := 0
		for _, n := range c.Bursts {
			if n > maxBurst {
				maxBurst = n
			}
		}
		if c.Sustained > maxBurst {
			maxBurst = c.Sustained
		}
		cls := []string{fmt.Sprintf("sustained:%v", c.Sustained > 0), "backend:" + c.Backend, "stop:" + c.Stop, "stop-at:" + c.StopAt, fmt.Sprintf("burst>=30:%v", maxBurst >= 30), fmt.Sprintf("cancelled-stats:%v", c.StatsCalls > 0)}
		vkit.CaseN(tProg, vkit.Hash(*c), reps, maxBurst >= 2 || c.StopAt != "idle", cls, func() any { return *c })
	})
}

// expiringContext is a context that ends with context.DeadlineExceeded when
// expire is called (or with its parent's error when the parent ends): what a
// context.WithTimeout looks like to its users at the moment the time is up,
// without the harness having to guess how long a scenario takes.
type expiringContext struct {
	context.Context
	done chan struct{}
	once sync.Once
	err  atomic.Value
}

func newExpiringContext(parent context.Context) *expiringContext {
	c := &expiringContext{Context: parent, done: make(chan struct{})}
	go func() {
		select {
		case <-parent.Done():
			c.finish(parent.Err())
		case <-c.done:
		}
	}()
	return c
}

func (c *expiringContext) finish(err error) {
	c.once.Do(func() { c.err.Store(err); close(c.done) })
}

func (c *expiringContext) expire()               { c.finish(context.DeadlineExceeded) }
func (c *expiringContext) Done() <-chan struct{} { return c.done }
func (c *expiringContext) Err() error {
	if e, _ := c.err.Load().(error); e != nil {
		return e
	}
	return nil
}
func (c *expiringContext) Deadline() (time.Time, bool) { return time.Now().Add(time.Hour), true }
