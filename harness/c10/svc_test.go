// Package c10 decides property C10: the srv.Service lifecycle - each phase
// once, in order, errors complete.
package c10

import (
	"context"
	"errors"
	"fmt"
	"runtime"
	"sync"
	"sync/atomic"
	"testing"
	"time"

	"github.com/tychoish/fun"
	"github.com/tychoish/fun/srv"
	"github.com/tychoish/fun/verifhook"
	"pgregory.net/rapid"

	"verif/harness/vkit"
)

func TestMain(m *testing.M) { vkit.Main(m) }

const tSvc = "TestServiceLifecycle"

type Case struct {
	Run      string `json:"run"`      // ok | error | panic
	Shutdown string `json:"shutdown"` // absent | ok | error | panic
	Cleanup  string `json:"cleanup"`  // absent | ok | error | panic
	Handler  string `json:"handler"`  // absent | ok | waits (calls Wait on its own service) | panic
	Ending   string `json:"ending"`   // self | self-gated | close | cancel | cancel-before-start
	Starters int    `json:"starters"`
	Closers  int    `json:"closers"`
	Waiters  int    `json:"waiters"`
	// EarlyWaiters call Wait in a loop from the moment the Start callers
	// are released: a Wait that overlaps Start either reports "not started"
	// or waits for the whole lifecycle like any other
	EarlyWaiters int `json:"early_waiters,omitempty"`
	// SideWaiters wait through Service.Worker() with a context of their
	// own, which is cancelled while the service is still running: they
	// give up, the other waiters go on waiting
	SideWaiters int `json:"side_waiters,omitempty"`
	// PreClose: Close is called once before anybody calls Start ("If the
	// service hasn't started ... this has no effect")
	PreClose bool   `json:"close_before_start,omitempty"`
	Hook     string `json:"hook"` // "" | launched | checked
	Yields   []int  `json:"yields"`
	Procs    int    `json:"gomaxprocs"`
}

type event struct {
	name  string
	stamp int64
}

type world struct {
	c      *Case
	clock  atomic.Int64
	mu     sync.Mutex
	events []event
	errs   map[string]error
	done   map[string]*atomic.Bool
	ended  atomic.Int64 // stamp of the earliest event that ends the service context
}

func (w *world) log(name string) int64 {
	s := w.clock.Add(1)
	w.mu.Lock()
	w.events = append(w.events, event{name, s})
	w.mu.Unlock()
	return s
}

func (w *world) count(name string) (n int, first int64) {
	w.mu.Lock()
	defer w.mu.Unlock()
	for _, e := range w.events {
		if e.name == name {
			if n == 0 {
				first = e.stamp
			}
			n++
		}
	}
	return
}

func (w *world) markEnded() {
	s := w.clock.Add(1)
	for {
		cur := w.ended.Load()
		if cur != 0 && cur <= s {
			return
		}
		if w.ended.CompareAndSwap(cur, s) {
			return
		}
	}
}

func (w *world) outcome(phase, kind string) error {
	switch kind {
	case "error":
		return w.errs[phase]
	case "panic":
		panic(fmt.Sprintf("%s panics", phase))
	}
	return nil
}

func runCase(c *Case) (string, string) {
	if c.Procs > 0 {
		old := runtime.GOMAXPROCS(c.Procs)
		defer runtime.GOMAXPROCS(old)
	}
	limit := vkit.Limit()
	w := &world{c: c, errs: map[string]error{}, done: map[string]*atomic.Bool{}}
	for _, p := range []string{"run", "shutdown", "cleanup"} {
		w.errs[p] = fmt.Errorf("%s failed", p)
		w.done[p] = &atomic.Bool{}
	}
	y := func(i int) { vkit.Yield(c.Yields[i%len(c.Yields)]) }
	gate := make(chan struct{})
	parent, cancelParent := context.WithCancel(context.Background())
	defer cancelParent()
	if c.Ending == "deadline" {
		// like "cancel", but the context ends with DeadlineExceeded
		ectx := vkit.NewExpiringContext(parent)
		parent, cancelParent = ectx, ectx.Expire
	}

	s := &srv.Service{Name: "svc"}
	s.Run = func(ctx context.Context) (err error) {
		w.log("run.start")
		defer func() { w.markEnded(); w.log("run.end"); w.done["run"].Store(true) }()
		switch c.Ending {
		case "self":
			y(0)
		case "self-gated":
			<-gate
		default:
			<-ctx.Done()
		}
		return w.outcome("run", c.Run)
	}
	if c.Shutdown != "absent" {
		s.Shutdown = func() error {
			w.log("shutdown.start")
			defer func() { w.log("shutdown.end"); w.done["shutdown"].Store(true) }()
			y(1)
			return w.outcome("shutdown", c.Shutdown)
		}
	} else {
		w.done["shutdown"].Store(true)
	}
	if c.Cleanup != "absent" {
		s.Cleanup = func() error {
			w.log("cleanup.start")
			if !w.done["run"].Load() || !w.done["shutdown"].Load() {
				w.log("cleanup.too-early")
			}
			defer func() { w.log("cleanup.end"); w.done["cleanup"].Store(true) }()
			y(2)
			return w.outcome("cleanup", c.Cleanup)
		}
	} else {
		w.done["cleanup"].Store(true)
	}
	var handlerArg atomic.Value
	if c.Handler != "absent" {
		s.ErrorHandler.Set(func(err error) {
			w.log("handler.start")
			if !w.done["cleanup"].Load() {
				w.log("handler.too-early")
			}
			if err == nil {
				w.log("handler.nil-argument")
			} else {
				handlerArg.Store(err)
			}
			if c.Handler == "panic" {
				panic("handler panics")
			}
			if c.Handler == "waits" {
				// the handler is one more caller of Wait; Run, Shutdown and
				// Cleanup have returned, so it does not block
				waited := make(chan error, 1)
				go func() { waited <- s.Wait() }()
				select {
				case werr := <-waited:
					if werr == nil {
						w.log("handler.wait-nil")
					}
				case <-time.After(limit):
					w.log("handler.wait-blocks")
				}
			}
		})
	}

	// yield points in Start
	finished := make(chan struct{}) // closed once the service has completely finished
	var arrivals atomic.Int64
	switch c.Hook {
	case "launched":
		verifhook.Set("srv.Service.Start.launched", func() {
			// let the whole service finish before Start's deferred stores run
			select {
			case <-finished:
			case <-time.After(limit):
			}
		})
	case "checked":
		verifhook.Set("srv.Service.Start.checked", func() {
			if arrivals.Add(1) == 2 {
				select {
				case <-finished:
				case <-time.After(limit):
				}
			}
		})
	}
	defer verifhook.Clear()
	if c.Hook != "" {
		go func() {
			// "finished" = all three phases are done and Wait would return
			vkit.Eventually(limit, func() bool {
				return w.done["run"].Load() && w.done["shutdown"].Load() && w.done["cleanup"].Load()
			})
			time.Sleep(2 * time.Millisecond)
			close(finished)
		}()
	}

	if c.PreClose {
		s.Close()
	}
	if c.Ending == "cancel-before-start" {
		w.markEnded()
		cancelParent()
	}
	started := make(chan struct{})
	var startedOnce sync.Once
	startErrs := make([]error, c.Starters)
	var swg sync.WaitGroup
	barrier := make(chan struct{})
	for i := 0; i < c.Starters; i++ {
		swg.Add(1)
		go func(i int) {
			defer swg.Done()
			<-barrier
			y(i)
			startErrs[i] = s.Start(parent)
			if startErrs[i] == nil {
				startedOnce.Do(func() { close(started) })
			}
		}(i)
	}
	// declared here, used by the early waiters and (below) by the others
	bad := make(chan [2]string, 4*(c.Waiters+c.EarlyWaiters+c.SideWaiters+2))
	var checkWait func(who string, err error)
	checkWaitReady := make(chan struct{})
	var ewg sync.WaitGroup
	for i := 0; i < c.EarlyWaiters; i++ {
		ewg.Add(1)
		go func(i int) {
			defer ewg.Done()
			<-barrier
			for k := 0; ; k++ {
				err := s.Wait()
				if errors.Is(err, srv.ErrServiceNotStarted) {
					if k%3 == i%3 {
						runtime.Gosched()
					}
					continue
				}
				<-checkWaitReady
				checkWait(fmt.Sprintf("early waiter %d (call %d, overlapping Start)", i, k), err)
				return
			}
		}(i)
	}
	close(barrier)
	select {
	case <-started:
	case <-time.After(limit):
		return "start", fmt.Sprintf("no Start call returned nil within %v", limit)
	}
	// waiters begin after a nil Start
	checkWait = func(who string, err error) {
		for _, p := range []string{"run", "shutdown", "cleanup"} {
			if !w.done[p].Load() {
				bad <- [2]string{"wait-early", fmt.Sprintf("%s: Wait returned before %s had returned", who, p)}
				return
			}
		}
		if s.Running() {
			bad <- [2]string{"running-after-wait", fmt.Sprintf("%s: Running() is true after Wait returned", who)}
		}
		panicked := false
		for phase, kind := range map[string]string{"run": c.Run, "shutdown": c.Shutdown, "cleanup": c.Cleanup} {
			if kind == "error" && !errors.Is(err, w.errs[phase]) {
				bad <- [2]string{"error-lost", fmt.Sprintf("%s: the error of %s is not in the result of Wait: %v", who, phase, err)}
			}
			panicked = panicked || kind == "panic"
		}
		if c.Handler == "panic" {
			return // the statement does not say where a panicking handler is reported
		}
		if panicked != errors.Is(err, fun.ErrRecoveredPanic) {
			bad <- [2]string{"panic-report", fmt.Sprintf("%s: a phase panicked: %v, but Wait returned %v", who, panicked, err)}
		}
		if !panicked && c.Run != "error" && c.Shutdown != "error" && c.Cleanup != "error" && err != nil {
			bad <- [2]string{"spurious-error", fmt.Sprintf("%s: nothing failed but Wait returned %v", who, err)}
		}
	}
	close(checkWaitReady)
	var wwg sync.WaitGroup
	for i := 0; i < c.Waiters; i++ {
		wwg.Add(1)
		go func(i int) {
			defer wwg.Done()
			y(i + 3)
			checkWait(fmt.Sprintf("waiter %d", i), s.Wait())
		}(i)
	}
	for i := 0; i < c.SideWaiters; i++ {
		sctx, scancel := context.WithCancel(context.Background())
		sdone := make(chan struct{})
		go func() { defer close(sdone); _ = s.Worker()(sctx) }()
		go func(i int) {
			y(i + 1)
			scancel()
			select {
			case <-sdone:
			case <-time.After(limit):
				bad <- [2]string{"side-waiter-stuck", "Service.Worker() has not returned after its own context was cancelled"}
			}
		}(i)
	}
	// end the service
	switch c.Ending {
	case "self-gated":
		y(4)
		close(gate)
	case "close":
		if c.Closers == 0 {
			c.Closers = 1
		}
		var cwg sync.WaitGroup
		for i := 0; i < c.Closers; i++ {
			cwg.Add(1)
			go func(i int) { defer cwg.Done(); y(i + 5); w.markEnded(); s.Close() }(i)
		}
		cwg.Wait()
	case "cancel", "deadline":
		y(6)
		w.markEnded()
		cancelParent()
	}
	if c.Ending != "close" {
		for i := 0; i < c.Closers; i++ {
			go func() { w.markEnded(); s.Close() }() // a Close at any time is one of the ways to end the service
		}
	}
	allDone := make(chan struct{})
	go func() { swg.Wait(); wwg.Wait(); ewg.Wait(); checkWait("final Wait", s.Wait()); close(allDone) }()
	select {
	case <-allDone:
	case <-time.After(2 * limit):
		return "stuck", fmt.Sprintf("Start/Wait callers have not all returned %v after the service was told to end (%s)", 2*limit, c.Ending)
	}
	select {
	case b := <-bad:
		return b[0], b[1]
	default:
	}
	// the call log
	nils := 0
	for i, err := range startErrs {
		switch {
		case err == nil:
			nils++
		case errors.Is(err, srv.ErrServiceAlreadyStarted), errors.Is(err, srv.ErrServiceReturned):
		default:
			return "start", fmt.Sprintf("Start caller %d got the unexpected error %v", i, err)
		}
	}
	if nils != 1 {
		return "start-twice", fmt.Sprintf("%d of %d concurrent Start calls returned nil (results %v)", nils, c.Starters, startErrs)
	}
	if n, _ := w.count("run.start"); n != 1 {
		return "phase-count", fmt.Sprintf("Run was invoked %d times", n)
	}
	if c.Shutdown != "absent" {
		n, first := w.count("shutdown.start")
		if n != 1 {
			return "phase-count", fmt.Sprintf("Shutdown was invoked %d times", n)
		}
		if e := w.ended.Load(); e == 0 || first < e {
			return "shutdown-early", fmt.Sprintf("Shutdown started (stamp %d) before anything ended the service context (stamp %d)", first, e)
		}
	}
	if c.Cleanup != "absent" {
		if n, _ := w.count("cleanup.start"); n != 1 {
			return "phase-count", fmt.Sprintf("Cleanup was invoked %d times", n)
		}
		if n, _ := w.count("cleanup.too-early"); n > 0 {
			return "cleanup-early", "Cleanup started before Run and Shutdown had both returned"
		}
	}
	if c.Handler != "absent" {
		// the handler runs on its own goroutine after the phases; Wait
		// covers it
		n, _ := w.count("handler.start")
		if n > 1 {
			return "handler", fmt.Sprintf("the ErrorHandler ran %d times", n)
		}
		if k, _ := w.count("handler.too-early"); k > 0 {
			return "handler", "the ErrorHandler ran before Cleanup had returned"
		}
		if k, _ := w.count("handler.wait-blocks"); k > 0 {
			return "handler-wait", "Wait called from inside the ErrorHandler (after Run, Shutdown and Cleanup have returned) does not return"
		}
		if k, _ := w.count("handler.nil-argument"); k > 0 {
			return "handler", "the ErrorHandler was called with a nil error"
		}
		failed := c.Run != "ok" || (c.Shutdown != "ok" && c.Shutdown != "absent") || (c.Cleanup != "ok" && c.Cleanup != "absent")
		if !failed && n != 0 {
			return "handler", "the ErrorHandler ran although nothing failed"
		}
	}
	return "", ""
}

func genCase(t *rapid.T) *Case {
	oc := rapid.SampledFrom([]string{"absent", "ok", "ok", "error", "panic"})
	c := &Case{
		Run:          rapid.SampledFrom([]string{"ok", "ok", "error", "panic"}).Draw(t, "run"),
		Shutdown:     oc.Draw(t, "shutdown"),
		Cleanup:      oc.Draw(t, "cleanup"),
		Handler:      rapid.SampledFrom([]string{"absent", "ok", "ok", "waits", "panic"}).Draw(t, "handler"),
		Ending:       rapid.SampledFrom([]string{"self", "self-gated", "close", "cancel", "deadline", "cancel-before-start"}).Draw(t, "ending"),
		Starters:     rapid.IntRange(1, 6).Draw(t, "starters"),
		Closers:      rapid.IntRange(0, 3).Draw(t, "closers"),
		Waiters:      rapid.IntRange(0, 3).Draw(t, "waiters"),
		EarlyWaiters: rapid.SampledFrom([]int{0, 0, 1, 2, 3}).Draw(t, "earlyWaiters"),
		Yields:       rapid.SliceOfN(rapid.IntRange(0, 4), 1, 6).Draw(t, "yields"),
		Procs:        rapid.SampledFrom([]int{1, 2, 4, 16}).Draw(t, "gomaxprocs"),
	}
	c.PreClose = rapid.IntRange(0, 3).Draw(t, "preClose") == 0
	if rapid.IntRange(0, 2).Draw(t, "sideWaiters") == 0 {
		c.SideWaiters = rapid.IntRange(1, 2).Draw(t, "sideWaiterCount")
	}
	return c
}

// twoAtOnce: two phases fail at the same moment, one with an error and one
// with a panic (Run returns and the Shutdown hook fires when the service
// context ends): their reports reach the service's collector concurrently,
// the first of them while it is still empty.
func (c *Case) twoAtOnce() bool {
	ends := c.Ending == "close" || c.Ending == "cancel"
	return ends && ((c.Run == "error" && c.Shutdown == "panic") || (c.Run == "panic" && c.Shutdown == "error"))
}

func check(t vkit.TB, test string, c *Case, reps int) int {
	if c.twoAtOnce() && c.Hook == "" {
		reps *= 40 // a narrow window: see twoAtOnce
	}
	for i := 0; i < reps; i++ {
		if k, why := runCase(c); why != "" {
			key := "C10:" + k
			if c.Hook != "" {
				key = "C10:hook-" + c.Hook + "/" + k
			}
			vkit.Fail(t, test, key, *c, "%s (repetition %d)", why, i)
		}
	}
	return reps
}

func TestServiceLifecycle(t *testing.T) {
	var rc Case
	if ok, err := vkit.ReplayCase(tSvc, &rc); err != nil {
		t.Fatal(err)
	} else if ok {
		check(t, tSvc, &rc, 100)
		return
	}
	reps := vkit.Pick(3, 8)
	rapid.Check(t, func(t *rapid.T) {
		if vkit.AlreadyFailed(tSvc) {
			return
		}
		c := genCase(t)
		n := check(t, tSvc, c, reps)
		fault := c.Run != "ok" || c.Shutdown == "error" || c.Shutdown == "panic" || c.Cleanup == "error" || c.Cleanup == "panic"
		vkit.CaseN(tSvc, vkit.Hash(*c), n, fault || c.Starters >= 2, []string{"ending:" + c.Ending, fmt.Sprintf("fault:%v", fault), fmt.Sprintf("starters>=2:%v", c.Starters >= 2), fmt.Sprintf("side-waiters:%v", c.SideWaiters > 0), fmt.Sprintf("two-failures-at-once:%v", c.twoAtOnce())}, func() any { return *c })
	})
}

// the two windows of Start, reached deterministically through the hooks
const tHook = "TestStartWindows"

func TestStartWindows(t *testing.T) {
	var rc Case
	if ok, err := vkit.ReplayCase(tHook, &rc); err != nil {
		t.Fatal(err)
	} else if ok {
		check(t, tHook, &rc, 5)
		return
	}
	rapid.Check(t, func(t *rapid.T) {
		if vkit.AlreadyFailed(tHook) {
			return
		}
		c := genCase(t)
		c.Hook = rapid.SampledFrom([]string{"launched", "checked"}).Draw(t, "hook")
		// the service must be able to finish on its own while Start is
		// held at the yield point
		c.Ending = rapid.SampledFrom([]string{"self", "cancel-before-start"}).Draw(t, "ending")
		if c.Hook == "checked" && c.Starters < 2 {
			c.Starters = 2
		}
		check(t, tHook, c, 1)
		vkit.Case(tHook, vkit.Hash(*c), true, []string{"hook:" + c.Hook, "ending:" + c.Ending}, func() any { return *c })
	})
}
