// Package c02 decides property C02: any composition of the order-preserving
// iterator operations yields the sequence obtained by applying the
// corresponding pure functions to the input slices.
package c02

import (
	"bytes"
	"context"
	"encoding/json"
	"errors"
	"fmt"
	"io"
	"reflect"
	"strconv"
	"testing"
	"time"

	"github.com/tychoish/fun"
	"github.com/tychoish/fun/dt"
	"github.com/tychoish/fun/itertool"
	"github.com/tychoish/fun/risky"
	"pgregory.net/rapid"

	"verif/harness/vkit"
)

func TestMain(m *testing.M) { vkit.Main(m) }

const tPipe = "TestPipelines"

var errInjected = errors.New("injected failure")

// Node is one operator of the generated tree.
type Node struct {
	K      string  `json:"k"`
	Vals   []int   `json:"vals,omitempty"`   // source values
	Slices [][]int `json:"slices,omitempty"` // MergeSlices / MergeSliceIterators
	N      int     `json:"n,omitempty"`      // buffer size, filter modulus, added constant …
	SkipAt int     `json:"skip_at"`          // call index at which the user function skips (-1: never)
	ErrAt  int     `json:"err_at"`           // call index at which the user function fails (-1: never)
	C      []Node  `json:"c,omitempty"`
}

type Case struct {
	Tree   Node   `json:"tree"`
	Sink   string `json:"sink"`
	Arg    int    `json:"arg,omitempty"`
	SkipAt int    `json:"skip_at"`
	ErrAt  int    `json:"err_at"`
}

// ---------------------------------------------------------------------
// the functional specification: plain slices

type mres struct {
	seq    []int
	ops    int
	inject bool // a skip or an error fired
	failed bool // a non-skip error truncated the output
}

func model(n Node) mres {
	var in []mres
	out := mres{ops: 1}
	for _, c := range n.C {
		r := model(c)
		in = append(in, r)
		out.ops += r.ops
		out.inject = out.inject || r.inject
		out.failed = out.failed || r.failed
	}
	first := func() []int {
		if len(in) > 0 {
			return in[0].seq
		}
		return nil
	}
	switch n.K {
	case "slice", "variadic", "dtslice", "chan", "list", "listpop", "jsonsrc":
		out.seq = append([]int{}, n.Vals...)
	case "listrev", "listpoprev", "stack", "stackpop":
		for i := len(n.Vals) - 1; i >= 0; i-- {
			out.seq = append(out.seq, n.Vals[i])
		}
	case "generator":
		for i, v := range n.Vals {
			if i == n.ErrAt {
				out.inject, out.failed = true, true
				break
			}
			if i == n.SkipAt {
				out.inject = true
				continue
			}
			out.seq = append(out.seq, v)
		}
	case "mergeslices", "mergesliceiters":
		for _, s := range n.Slices {
			out.seq = append(out.seq, s...)
		}
	case "filter":
		for _, v := range first() {
			if v%n.N == 0 {
				out.seq = append(out.seq, v)
			}
		}
	case "transform", "convert":
		for i, v := range first() {
			if i == n.ErrAt {
				out.inject, out.failed = true, true
				break
			}
			if i == n.SkipAt {
				out.inject = true
				continue
			}
			out.seq = append(out.seq, v+n.N)
		}
	case "buffer", "split1", "channel", "jsonrt", "risky", "listrt", "jsononto-empty":
		out.seq = append([]int{}, first()...)
	case "stackrt":
		f := first()
		for i := len(f) - 1; i >= 0; i-- {
			out.seq = append(out.seq, f[i])
		}
	case "uniq":
		seen := map[int]bool{}
		for _, v := range first() {
			if !seen[v] {
				seen[v] = true
				out.seq = append(out.seq, v)
			}
		}
	case "dropzero":
		for _, v := range first() {
			if v != 0 {
				out.seq = append(out.seq, v)
			}
		}
	case "indexed":
		for i, v := range first() {
			out.seq = append(out.seq, v*100+i)
		}
	case "jsononto": // UnmarshalJSON onto an existing iterator: its items, then the decoded ones
		out.seq = append(append([]int{}, first()...), n.Vals...)
	case "join", "chain":
		for _, r := range in {
			out.seq = append(out.seq, r.seq...)
		}
	default:
		panic("model: unknown node " + n.K)
	}
	return out
}

// ---------------------------------------------------------------------
// the same tree on the library

type env struct {
	ctx context.Context
}

func inject(skipAt, errAt int, calls *int) error {
	*calls++
	switch *calls - 1 {
	case errAt:
		return errInjected
	case skipAt:
		return fun.ErrIteratorSkip
	}
	return nil
}

func (e *env) build(n Node) *fun.Iterator[int] {
	var in []*fun.Iterator[int]
	for _, c := range n.C {
		in = append(in, e.build(c))
	}
	vals := append([]int{}, n.Vals...)
	switch n.K {
	case "slice":
		return fun.SliceIterator(vals)
	case "variadic":
		return fun.VariadicIterator(vals...)
	case "dtslice":
		return dt.NewSlice(vals).Iterator()
	case "chan":
		ch := make(chan int, len(vals))
		for _, v := range vals {
			ch <- v
		}
		close(ch)
		return fun.ChannelIterator(ch)
	case "generator":
		calls := 0
		return fun.Generator(func(context.Context) (int, error) {
			if calls >= len(vals) {
				if n.N%2 == 1 {
					// a drained source may say so with an error that
					// wraps io.EOF: the library tests with errors.Is
					return 0, fmt.Errorf("generator drained: %w", io.EOF)
				}
				return 0, io.EOF
			}
			v := vals[calls]
			if err := inject(n.SkipAt, n.ErrAt, &calls); err != nil {
				return 0, err
			}
			return v, nil
		})
	case "list", "listrev", "listpop", "listpoprev":
		l := &dt.List[int]{}
		l.Append(vals...)
		switch n.K {
		case "list":
			return l.Iterator()
		case "listrev":
			return l.Reverse()
		case "listpop":
			return l.PopIterator()
		}
		return l.PopReverse()
	case "stack", "stackpop":
		s := &dt.Stack[int]{}
		s.Append(vals...)
		if n.K == "stack" {
			return s.Iterator()
		}
		return s.PopIterator()
	case "jsonsrc":
		b, _ := json.Marshal(vals)
		it := fun.SliceIterator([]int{})
		if err := it.UnmarshalJSON(b); err != nil {
			panic(err)
		}
		return it
	case "jsononto":
		b, _ := json.Marshal(vals)
		if err := in[0].UnmarshalJSON(b); err != nil {
			panic(err)
		}
		return in[0]
	case "mergeslices":
		cp := make([][]int, len(n.Slices))
		for i := range cp {
			cp[i] = append([]int{}, n.Slices[i]...)
		}
		return itertool.MergeSlices(cp...)
	case "mergesliceiters":
		cp := make([][]int, len(n.Slices))
		for i := range cp {
			cp[i] = append([]int{}, n.Slices[i]...)
		}
		return itertool.MergeSliceIterators(fun.SliceIterator(cp))
	case "filter":
		m := n.N
		return in[0].Filter(func(v int) bool { return v%m == 0 })
	case "transform":
		calls := 0
		return in[0].Transform(func(_ context.Context, v int) (int, error) {
			if err := inject(n.SkipAt, n.ErrAt, &calls); err != nil {
				return 0, err
			}
			return v + n.N, nil
		})
	case "convert": // through another element type
		calls := 0
		strs := fun.ConvertIterator(in[0], fun.Transform[int, string](func(_ context.Context, v int) (string, error) {
			if err := inject(n.SkipAt, n.ErrAt, &calls); err != nil {
				return "", err
			}
			return strconv.Itoa(v + n.N), nil
		}))
		return fun.ConvertIterator(strs, fun.ConverterErr(strconv.Atoi))
	case "buffer":
		return in[0].Buffer(n.N)
	case "split1":
		return in[0].Split(1)[0]
	case "channel":
		if n.N == 0 {
			return fun.ChannelIterator(in[0].Channel(e.ctx))
		}
		return fun.ChannelIterator(in[0].BufferedChannel(e.ctx, n.N-1))
	case "uniq":
		return itertool.Uniq(in[0])
	case "dropzero":
		return itertool.DropZeroValues(in[0])
	case "indexed":
		return fun.ConvertIterator(itertool.Indexed(in[0]), fun.Converter(func(p dt.Pair[int, int]) int { return p.Value*100 + p.Key }))
	case "jsonrt":
		b, err := in[0].MarshalJSON()
		if err != nil {
			panic(err)
		}
		it := fun.SliceIterator([]int{})
		if err := it.UnmarshalJSON(b); err != nil {
			panic(fmt.Errorf("UnmarshalJSON(%s): %w", b, err))
		}
		return it
	case "risky":
		return fun.SliceIterator(risky.Slice(in[0]))
	case "listrt":
		l, err := dt.NewListFromIterator(e.ctx, in[0])
		if err != nil {
			// the upstream failure is reported here; the list holds
			// what was read before it
			return risky.List(fun.SliceIterator([]int{})).Iterator()
		}
		return l.Iterator()
	case "stackrt":
		s, err := dt.NewStackFromIterator(e.ctx, in[0])
		if err != nil {
			return (&dt.Stack[int]{}).Iterator()
		}
		return s.Iterator()
	case "join":
		return in[0].Join(in[1:]...)
	case "chain":
		return itertool.Chain(in...)
	}
	panic("build: unknown node " + n.K)
}

// ---------------------------------------------------------------------
// generator

var sources = []string{"slice", "variadic", "dtslice", "chan", "generator", "generator", "list", "listrev", "listpop", "listpoprev", "stack", "stackpop", "jsonsrc", "mergeslices", "mergesliceiters"}
var unaries = []string{"filter", "transform", "transform", "convert", "buffer", "split1", "channel", "uniq", "dropzero", "indexed", "jsonrt", "risky", "listrt", "stackrt", "jsononto"}

func genVals(t *rapid.T) []int {
	switch rapid.IntRange(0, 5).Draw(t, "shape") {
	case 0:
		return []int{}
	case 1:
		return []int{rapid.IntRange(-2, 6).Draw(t, "v")}
	case 2: // duplicates and zeros
		return rapid.SliceOfN(rapid.IntRange(0, 2), 2, 8).Draw(t, "vals")
	}
	return rapid.SliceOfN(rapid.IntRange(-2, 6), 0, 9).Draw(t, "vals")
}

// genAt draws an injection index that favours the boundaries of 0..n.
func genAt(t *rapid.T, label string, n int) int {
	switch rapid.IntRange(0, 5).Draw(t, label+"-kind") {
	case 0:
		return 0
	case 1:
		return n - 1 // the last element (or -1: none)
	case 2:
		return n // just past the end: never fires
	case 3:
		return rapid.IntRange(-1, n).Draw(t, label)
	}
	return -1
}

// genNode: mayFail says whether a non-skip error may be injected below
// (false in every operand of a Join/Chain but the last one).
func genNode(t *rapid.T, depth int, mayFail bool) Node {
	kind := rapid.IntRange(0, 9).Draw(t, "node")
	switch {
	case depth <= 0 || kind <= 1:
		n := Node{K: rapid.SampledFrom(sources).Draw(t, "source"), SkipAt: -1, ErrAt: -1}
		switch n.K {
		case "mergeslices", "mergesliceiters":
			k := rapid.IntRange(0, 4).Draw(t, "nslices")
			n.Slices = [][]int{}
			for i := 0; i < k; i++ {
				n.Slices = append(n.Slices, genVals(t))
			}
		case "generator":
			n.Vals = genVals(t)
			n.N = rapid.IntRange(0, 1).Draw(t, "wrappedEOF")
			n.SkipAt = genAt(t, "skipAt", len(n.Vals))
			if mayFail {
				n.ErrAt = genAt(t, "errAt", len(n.Vals))
			}
		default:
			n.Vals = genVals(t)
		}
		return n
	case kind <= 7:
		n := Node{K: rapid.SampledFrom(unaries).Draw(t, "unary"), SkipAt: -1, ErrAt: -1}
		// UnmarshalJSON onto an iterator is a concatenation whose first
		// operand is the existing iterator: no failure below it
		n.C = []Node{genNode(t, depth-1, mayFail && n.K != "jsononto")}
		ln := len(model(n.C[0]).seq)
		switch n.K {
		case "filter":
			n.N = rapid.IntRange(1, 3).Draw(t, "mod")
		case "transform", "convert":
			n.N = rapid.IntRange(-1, 2).Draw(t, "add")
			n.SkipAt = genAt(t, "skipAt", ln)
			if mayFail {
				n.ErrAt = genAt(t, "errAt", ln)
			}
		case "buffer", "channel":
			n.N = rapid.IntRange(0, 3).Draw(t, "size")
		case "jsononto":
			n.Vals = genVals(t)
		}
		return n
	}
	n := Node{K: rapid.SampledFrom([]string{"join", "chain"}).Draw(t, "nary"), SkipAt: -1, ErrAt: -1}
	k := rapid.IntRange(1, 3).Draw(t, "operands")
	for i := 0; i < k; i++ {
		n.C = append(n.C, genNode(t, depth-1, mayFail && i == k-1))
	}
	return n
}

var sinks = []string{"slice", "count", "reduce", "itertool.reduce", "contains", "marshal", "readone", "next"}

func same(a, b []int) bool {
	if len(a) != len(b) {
		return false
	}
	for i := range a {
		if a[i] != b[i] {
			return false
		}
	}
	return true
}

func runCase(t vkit.TB, c Case) (nontrivial bool, classes []string) {
	fail := func(key, f string, a ...any) { t.Helper(); vkit.Fail(t, tPipe, "C02:"+key, c, f, a...) }
	failing := false
	realFail := fail
	fail = func(key, f string, a ...any) { t.Helper(); failing = true; realFail(key, f, a...) }
	defer func() {
		if r := recover(); r != nil {
			if !failing {
				failing = true
				realFail("panic", "panic: %v", r)
			}
			panic(r)
		}
	}()

	m := model(c.Tree)
	ctx, cancel := context.WithCancel(context.Background())
	defer cancel()
	e := &env{ctx: ctx}
	it := e.build(c.Tree)
	want := m.seq
	key := "sink/" + c.Sink
	switch c.Sink {
	case "slice":
		got, _ := it.Slice(ctx)
		if !same(got, want) {
			fail(key, "Slice() = %v, specification %v", got, want)
		}
	case "count":
		if got := it.Count(ctx); got != len(want) {
			fail(key, "Count() = %d, specification %d (%v)", got, len(want), want)
		}
	case "reduce", "itertool.reduce":
		calls := 0
		sum, stopped := 0, false
		for i, v := range want {
			if i == c.ErrAt {
				stopped = true
				break
			}
			if i == c.SkipAt {
				continue
			}
			sum += v
		}
		red := func(a, b int) (int, error) {
			if err := inject(c.SkipAt, c.ErrAt, &calls); err != nil {
				return 0, err
			}
			return a + b, nil
		}
		var got int
		var err error
		if c.Sink == "reduce" {
			got, err = it.Reduce(red)(ctx)
		} else {
			got, err = itertool.Reduce(ctx, it, red, 0)
		}
		if got != sum {
			fail(key, "fold = %d (%v), specification %d over %v", got, err, sum, want)
		}
		if stopped != (err != nil) || (stopped && !errors.Is(err, errInjected)) {
			fail(key, "fold error = %v, reducer failed: %v", err, stopped)
		}
	case "contains":
		has := false
		for _, v := range want {
			has = has || v == c.Arg
		}
		if got := itertool.Contains(ctx, c.Arg, it); got != has {
			fail(key, "Contains(%d) = %v, specification %v", c.Arg, got, want)
		}
	case "marshal":
		b, err := it.MarshalJSON()
		wb, _ := json.Marshal(append([]int{}, want...))
		if err != nil || string(b) != string(wb) {
			fail(key, "MarshalJSON() = %s (%v), encoding/json of the specification gives %s", b, err, wb)
		}
		// the document belongs to the caller: producing further documents
		// (with the same code, on the same goroutine) does not change it
		_, _ = fun.SliceIterator([]int{77, 77, 77, 77, 77, 77, 77, 77, 77}).MarshalJSON()
		ol := &dt.List[int]{}
		ol.PushBack(88)
		ol.PushBack(88)
		_, _ = ol.MarshalJSON()
		if string(b) != string(wb) {
			fail(key, "the document MarshalJSON() returned changed from %s to %s when two other documents were marshalled afterwards", wb, b)
		}
	case "readone":
		var got []int
		for {
			v, err := it.ReadOne(ctx)
			if err != nil {
				for k := 0; k < 3; k++ {
					if v2, err2 := it.ReadOne(ctx); err2 == nil {
						fail(key, "ReadOne returned the value %d after it had returned the error %v", v2, err)
					}
				}
				break
			}
			got = append(got, v)
			if len(got) > len(want)+50 {
				fail(key, "ReadOne keeps yielding: %v, specification %v", got, want)
			}
		}
		if !same(got, want) {
			fail(key, "ReadOne sequence = %v, specification %v", got, want)
		}
	case "next":
		var got []int
		for it.Next(ctx) {
			got = append(got, it.Value())
			if len(got) > len(want)+50 {
				fail(key, "Next keeps yielding: %v, specification %v", got, want)
			}
		}
		_ = it.Close()
		if it.Next(ctx) {
			fail(key, "Next is true after the iterator ended and was closed")
		}
		if !same(got, want) {
			fail(key, "Next/Value sequence = %v, specification %v", got, want)
		}
	default:
		panic("unknown sink " + c.Sink)
	}
	nonEmpty := false
	var walk func(n Node)
	kinds := map[string]bool{}
	walk = func(n Node) {
		kinds["op:"+n.K] = true
		nonEmpty = nonEmpty || len(n.Vals) > 0
		for _, s := range n.Slices {
			nonEmpty = nonEmpty || len(s) > 0
		}
		for _, ch := range n.C {
			walk(ch)
		}
	}
	walk(c.Tree)
	for k := range kinds {
		classes = append(classes, k)
	}
	classes = append(classes, "sink:"+c.Sink, fmt.Sprintf("ops:%d", min(m.ops, 8)))
	if m.inject {
		classes = append(classes, "skip-or-error-fired")
	}
	if m.failed {
		classes = append(classes, "error-fired")
	}
	return (m.ops >= 2 && nonEmpty) || m.inject, classes
}

func TestPipelines(t *testing.T) {
	var rc Case
	if ok, err := vkit.ReplayCase(tPipe, &rc); err != nil {
		t.Fatal(err)
	} else if ok {
		vkit.Watch(tPipe, "C02:terminates", time.Minute, func() any { return rc }, func() { runCase(t, rc) })
		return
	}
	rapid.Check(t, propPipelines)
}

// propPipelines is the generated property; FuzzPipelines drives the same function with
// the native coverage-guided fuzzer (rapid.MakeFuzz decodes the bytes).
func propPipelines(t *rapid.T) {
	c := Case{SkipAt: -1, ErrAt: -1}
	c.Tree = genNode(t, rapid.IntRange(0, 6).Draw(t, "depth"), true)
	c.Sink = rapid.SampledFrom(sinks).Draw(t, "sink")
	n := len(model(c.Tree).seq)
	switch c.Sink {
	case "reduce", "itertool.reduce":
		c.SkipAt = genAt(t, "sinkSkipAt", n)
		c.ErrAt = genAt(t, "sinkErrAt", n)
	case "contains":
		c.Arg = rapid.IntRange(-2, 8).Draw(t, "item")
	}
	var nt bool
	var cls []string
	vkit.Watch(tPipe, "C02:terminates", time.Minute, func() any { return c }, func() { nt, cls = runCase(t, c) })
	vkit.Case(tPipe, vkit.Hash(c), nt, cls, func() any { return c })
}

func FuzzPipelines(f *testing.F) { f.Fuzz(rapid.MakeFuzz(propPipelines)) }

// ---------------------------------------------------------------------
// JSON legs over element types that encoding/json *merges into* (structs
// with omitted fields, maps, slices, pointers): the iterator's JSON form is
// the JSON form of the slice of its elements, both ways, element by
// element - a decoded element owes nothing to its predecessor.

const tJSON = "TestJSONElements"

type rec struct {
	A *int           `json:"a,omitempty"`
	B []int          `json:"b,omitempty"`
	M map[string]int `json:"m,omitempty"`
	S string         `json:"s,omitempty"`
}

// Rec is the generated description of one element (which fields are present).
type Rec struct {
	A *int           `json:"a,omitempty"`
	B []int          `json:"b,omitempty"`
	M map[string]int `json:"m,omitempty"`
	S string         `json:"s,omitempty"`
}

type jsonCase struct {
	Kind   string `json:"kind"`   // struct | map | slice
	Prefix int    `json:"prefix"` // elements already in the iterator UnmarshalJSON is applied to
	Recs   []Rec  `json:"recs"`
}

func jsonRoundTrip[T any](t vkit.TB, c jsonCase, prefix, elems []T) {
	fail := func(key, f string, a ...any) { vkit.Fail(t, tJSON, "C02:json/"+key, c, f, a...) }
	want, err := json.Marshal(elems)
	if err != nil {
		t.Fatalf("encoding/json: %v", err)
	}
	if len(elems) == 0 {
		want = []byte("[]")
	}
	got, err := fun.SliceIterator(elems).MarshalJSON()
	if err != nil {
		fail("marshal", "MarshalJSON: %v", err)
	}
	if !bytes.Equal(got, want) {
		fail("marshal", "MarshalJSON = %s, encoding/json of the elements = %s", got, want)
	}
	it := fun.SliceIterator(append([]T{}, prefix...))
	if err := it.UnmarshalJSON(want); err != nil {
		fail("unmarshal", "UnmarshalJSON(%s): %v", want, err)
	}
	out, err := it.Slice(context.Background())
	if err != nil {
		fail("unmarshal", "reading the iterator after UnmarshalJSON(%s): %v", want, err)
	}
	var dec []T
	if err := json.Unmarshal(want, &dec); err != nil {
		t.Fatalf("encoding/json: %v", err)
	}
	spec := append(append([]T{}, prefix...), dec...)
	if len(out) != len(spec) {
		fail("unmarshal", "UnmarshalJSON(%s) onto %d elements yields %d elements, want %d", want, len(prefix), len(out), len(spec))
	}
	for i := range spec {
		if !reflect.DeepEqual(out[i], spec[i]) {
			a, _ := json.Marshal(out[i])
			b, _ := json.Marshal(spec[i])
			fail("unmarshal", "element %d after UnmarshalJSON(%s) is %s, encoding/json decodes it as %s", i, want, a, b)
		}
	}
}

func runJSON(t vkit.TB, c jsonCase) {
	switch c.Kind {
	case "struct":
		var els []rec
		for _, r := range c.Recs {
			els = append(els, rec(r))
		}
		jsonRoundTrip(t, c, els[:min(c.Prefix, len(els))], els)
	case "map":
		var els []map[string]int
		for _, r := range c.Recs {
			m := map[string]int{}
			for k, v := range r.M {
				m[k] = v
			}
			els = append(els, m)
		}
		jsonRoundTrip(t, c, els[:min(c.Prefix, len(els))], els)
	default:
		var els [][]int
		for _, r := range c.Recs {
			els = append(els, append([]int{}, r.B...))
		}
		jsonRoundTrip(t, c, els[:min(c.Prefix, len(els))], els)
	}
}

func TestJSONElements(t *testing.T) {
	var rc jsonCase
	if ok, err := vkit.ReplayCase(tJSON, &rc); err != nil {
		t.Fatal(err)
	} else if ok {
		runJSON(t, rc)
		return
	}
	rapid.Check(t, func(t *rapid.T) {
		c := jsonCase{Kind: rapid.SampledFrom([]string{"struct", "struct", "map", "slice"}).Draw(t, "kind"), Prefix: rapid.IntRange(0, 2).Draw(t, "prefix")}
		n := rapid.IntRange(0, 6).Draw(t, "n")
		differ := false
		for i := 0; i < n; i++ {
			var r Rec
			if rapid.Bool().Draw(t, "hasA") {
				v := rapid.IntRange(-3, 3).Draw(t, "a")
				r.A = &v
			}
			r.B = rapid.SliceOfN(rapid.IntRange(0, 9), 0, 4).Draw(t, "b")
			if len(r.B) == 0 {
				r.B = nil
			}
			if rapid.Bool().Draw(t, "hasM") {
				r.M = rapid.MapOfN(rapid.SampledFrom([]string{"x", "y", "z"}), rapid.IntRange(0, 9), 0, 3).Draw(t, "m")
				if len(r.M) == 0 {
					r.M = nil
				}
			}
			if rapid.Bool().Draw(t, "hasS") {
				r.S = rapid.SampledFrom([]string{"p", "q"}).Draw(t, "s")
			}
			if i > 0 && !reflect.DeepEqual(r, c.Recs[i-1]) {
				differ = true
			}
			c.Recs = append(c.Recs, r)
		}
		runJSON(t, c)
		vkit.Case(tJSON, vkit.Hash(c), n >= 2 && differ, []string{"kind:" + c.Kind}, func() any { return c })
	})
}
