package c15

import (
	"context"
	"errors"
	"fmt"
	"io"
	"testing"

	"github.com/tychoish/fun"
	"pgregory.net/rapid"

	"verif/harness/vkit"
)

// Producer.Join over several calls: "on successive calls, runs the first
// producer until it returns an io.EOF error, and then returns the results
// of the second producer ... When the second function returns io.EOF, all
// successive calls will return io.EOF."
//
// Each part follows a script of outcomes; a script may go on after an EOF
// (a drained source that later has more data), so that a joined producer
// which goes back to a part it has left is seen both in the values it
// returns and in the trace of calls.  The oracle is the concatenation of
// the parts' values up to their first EOF, and the rule that the index of
// the part being called never decreases.

const tJoin = "TestProducerJoin"

type joinCase struct {
	Parts [][]string `json:"parts"` // per part, per call: v | skip | eof | err   (past the script: eof)
	Calls int        `json:"calls"`
	Shape string     `json:"shape"` // left: a.Join(b).Join(c) | right: a.Join(b.Join(c))
}

var errJoinPart = errors.New("c15: a joined part failed")

func runJoin(c *joinCase) string {
	type call struct{ part, idx int }
	var trace []call
	ctx := context.Background()
	mk := func(pi int) fun.Producer[int] {
		n := 0
		return func(context.Context) (int, error) {
			i := n
			n++
			trace = append(trace, call{pi, i})
			if i >= len(c.Parts[pi]) {
				return 0, io.EOF
			}
			switch c.Parts[pi][i] {
			case "v":
				return pi*1000 + i, nil
			case "skip":
				return 0, fun.ErrIteratorSkip
			case "err":
				return 0, errJoinPart
			}
			return 0, io.EOF
		}
	}
	parts := make([]fun.Producer[int], len(c.Parts))
	for i := range parts {
		parts[i] = mk(i)
	}
	var joined fun.Producer[int]
	switch {
	case len(parts) == 2:
		joined = parts[0].Join(parts[1])
	case c.Shape == "right":
		joined = parts[0].Join(parts[1].Join(parts[2]))
	default:
		joined = parts[0].Join(parts[1]).Join(parts[2])
	}
	// the documented result, call by call
	type res struct {
		v   int
		err error
	}
	var want []res
	failed := false
	for pi := range c.Parts {
		ended := false
		for i := 0; !ended && !failed; i++ {
			o := "eof"
			if i < len(c.Parts[pi]) {
				o = c.Parts[pi][i]
			}
			switch o {
			case "v":
				want = append(want, res{pi*1000 + i, nil})
			case "err":
				want = append(want, res{0, errJoinPart})
				failed = true
			case "eof":
				ended = true
			}
		}
		if failed {
			break
		}
	}
	for k := 0; k < c.Calls; k++ {
		v, err := joined(ctx)
		switch {
		case k < len(want):
			w := want[k]
			if w.err != nil {
				if !errors.Is(err, w.err) {
					return fmt.Sprintf("call %d returned (%d, %v); part failed with %v there", k, v, err, w.err)
				}
				// what follows an error of a part is not documented
				return ""
			}
			if err != nil || v != w.v {
				return fmt.Sprintf("call %d returned (%d, %v), the documented sequence has %d there (trace of part calls: %v)", k, v, err, w.v, trace)
			}
		case failed:
			return ""
		default:
			if !errors.Is(err, io.EOF) {
				return fmt.Sprintf("call %d returned (%d, %v) after every part had reported io.EOF; all successive calls return io.EOF (trace: %v)", k, v, err, trace)
			}
		}
		// the parts are visited in order and never revisited
		last := 0
		for _, t := range trace {
			if t.part < last {
				return fmt.Sprintf("after call %d: part %d was called again after part %d had been reached; each part runs until its io.EOF and is then done (trace: %v)", k, t.part, last, trace)
			}
			last = t.part
		}
	}
	return ""
}

func TestProducerJoin(t *testing.T) {
	var rc joinCase
	if ok, err := vkit.ReplayCase(tJoin, &rc); err != nil {
		t.Fatal(err)
	} else if ok {
		if why := runJoin(&rc); why != "" {
			vkit.Fail(t, tJoin, "C15:join/Producer", rc, "%s", why)
		}
		return
	}
	rapid.Check(t, func(t *rapid.T) {
		c := &joinCase{Shape: rapid.SampledFrom([]string{"left", "right"}).Draw(t, "shape")}
		np := rapid.IntRange(2, 3).Draw(t, "parts")
		revisitable := false
		total := 0
		for i := 0; i < np; i++ {
			script := rapid.SliceOfN(rapid.SampledFrom([]string{"v", "v", "v", "skip", "eof", "err", "v", "v"}), 0, 6).Draw(t, "script")
			seenEOF := false
			for _, o := range script {
				if seenEOF && o == "v" {
					revisitable = true
				}
				seenEOF = seenEOF || o == "eof"
			}
			total += len(script)
			c.Parts = append(c.Parts, script)
		}
		c.Calls = rapid.IntRange(1, total+4).Draw(t, "calls")
		if why := runJoin(c); why != "" {
			vkit.Fail(t, tJoin, "C15:join/Producer", *c, "%s", why)
		}
		vkit.Case(tJoin, vkit.Hash(*c), c.Calls >= 3 && total >= 3, []string{fmt.Sprintf("parts:%d", np), "shape:" + c.Shape, fmt.Sprintf("data-after-eof:%v", revisitable)}, func() any { return *c })
	})
}
