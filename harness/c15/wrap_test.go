// Package c15 decides property C15: the function wrappers keep their
// execution-count, exclusion and waiting contracts.
package c15

import (
	"context"
	"errors"
	"fmt"
	"io"
	"runtime"
	"sync"
	"sync/atomic"
	"testing"
	"time"

	"github.com/tychoish/fun"
	"github.com/tychoish/fun/adt"
	"github.com/tychoish/fun/ers"
	"github.com/tychoish/fun/ft"
	"pgregory.net/rapid"

	"verif/harness/vkit"
)

func TestMain(m *testing.M) { vkit.Main(m) }

// base is the instrumented function every wrapper is applied to: it counts
// invocations, tracks how many run at once, optionally blocks on a gate and
// sets done as its last action.
type base struct {
	calls   atomic.Int64
	active  atomic.Int64
	maxAct  atomic.Int64
	done    atomic.Bool
	entered chan struct{} // closed when the first invocation has started
	gate    chan struct{} // the invocation waits for it (nil: no gate)
	yield   int
	err     error
	once    sync.Once
}

func newBase(gated bool, yield int, err error) *base {
	b := &base{entered: make(chan struct{}), yield: yield, err: err}
	if gated {
		b.gate = make(chan struct{})
	}
	return b
}

// run returns the invocation index (1-based) and the configured error.
func (b *base) run(context.Context) (int, error) {
	k := int(b.calls.Add(1))
	a := b.active.Add(1)
	for {
		m := b.maxAct.Load()
		if a <= m || b.maxAct.CompareAndSwap(m, a) {
			break
		}
	}
	b.once.Do(func() { close(b.entered) })
	if b.gate != nil {
		<-b.gate
	}
	vkit.Yield(b.yield)
	b.active.Add(-1)
	b.done.Store(true)
	return k, b.err
}

// A call is the uniform shape of a wrapped function: it returns the value
// it produced (0 when the kind has none) and its error.
type call func(ctx context.Context) (int, error)

var errBase = errors.New("base failed")

// ---------------------------------------------------------------------
// Once

var onceKinds = []string{"Worker.Once", "Operation.Once", "Producer.Once", "Processor.Once", "Handler.Once", "Future.Once", "ft.Once", "ft.OnceDo", "adt.Once.Do", "adt.Once.Resolve", "adt.Mnemonize"}

func mkOnce(kind string, b *base) (c call, hasVal, hasErr bool) {
	switch kind {
	case "Worker.Once":
		w := fun.Worker(func(ctx context.Context) error { _, err := b.run(ctx); return err }).Once()
		return func(ctx context.Context) (int, error) { return 0, w(ctx) }, false, true
	case "Operation.Once":
		o := fun.Operation(func(ctx context.Context) { _, _ = b.run(ctx) }).Once()
		return func(ctx context.Context) (int, error) { o(ctx); return 0, nil }, false, false
	case "Producer.Once":
		p := fun.Producer[int](b.run).Once()
		return func(ctx context.Context) (int, error) { return p(ctx) }, true, true
	case "Processor.Once":
		p := fun.Processor[int](func(ctx context.Context, _ int) error { _, err := b.run(ctx); return err }).Once()
		return func(ctx context.Context) (int, error) { return 0, p(ctx, 7) }, false, true
	case "Handler.Once":
		h := fun.Handler[int](func(int) { _, _ = b.run(context.Background()) }).Once()
		return func(context.Context) (int, error) { h(7); return 0, nil }, false, false
	case "Future.Once":
		f := fun.Future[int](func() int { v, _ := b.run(context.Background()); return v }).Once()
		return func(context.Context) (int, error) { return f(), nil }, true, false
	case "ft.Once":
		f := ft.Once(func() { _, _ = b.run(context.Background()) })
		return func(context.Context) (int, error) { f(); return 0, nil }, false, false
	case "ft.OnceDo":
		f := ft.OnceDo(func() int { v, _ := b.run(context.Background()); return v })
		return func(context.Context) (int, error) { return f(), nil }, true, false
	case "adt.Once.Do":
		o := &adt.Once[int]{}
		return func(context.Context) (int, error) {
			o.Do(func() int { v, _ := b.run(context.Background()); return v })
			return o.Resolve(), nil
		}, true, false
	case "adt.Once.Resolve":
		o := adt.NewOnce(func() int { v, _ := b.run(context.Background()); return v })
		return func(context.Context) (int, error) { return o.Resolve(), nil }, true, false
	case "adt.Mnemonize":
		f := adt.Mnemonize(func() int { v, _ := b.run(context.Background()); return v })
		return func(context.Context) (int, error) { return f(), nil }, true, false
	}
	panic("unknown once kind " + kind)
}

const tOnce = "TestOnce"

type onceCase struct {
	Kind    string `json:"kind"`
	Callers int    `json:"callers"`
	Calls   int    `json:"calls_per_caller"`
	Fails   bool   `json:"fails"`
	Yields  []int  `json:"yields"`
	Procs   int    `json:"gomaxprocs"`
}

func runOnce(c *onceCase) (string, int) {
	if c.Procs > 0 {
		old := runtime.GOMAXPROCS(c.Procs)
		defer runtime.GOMAXPROCS(old)
	}
	var berr error
	if c.Fails {
		berr = errBase
	}
	b := newBase(true, c.Yields[0], berr)
	f, hasVal, hasErr := mkOnce(c.Kind, b)
	var started atomic.Int64
	var wg sync.WaitGroup
	bad := make(chan string, c.Callers*c.Calls+1)
	for g := 0; g < c.Callers; g++ {
		wg.Add(1)
		go func(g int) {
			defer wg.Done()
			for i := 0; i < c.Calls; i++ {
				vkit.Yield(c.Yields[(g+i)%len(c.Yields)])
				started.Add(1)
				v, err := f(context.Background())
				if !b.done.Load() {
					bad <- fmt.Sprintf("caller %d returned from call %d before the single execution had finished", g, i)
				}
				if hasVal && v != 1 {
					bad <- fmt.Sprintf("caller %d got the value %d, the single execution produced 1", g, v)
				}
				if hasErr && !errors.Is(err, berr) || (hasErr && berr == nil && err != nil) {
					bad <- fmt.Sprintf("caller %d got the error %v, the single execution returned %v", g, err, berr)
				}
			}
		}(g)
	}
	// hold the execution until the other callers had a chance to pile up
	<-b.entered
	vkit.Eventually(20*time.Millisecond, func() bool { return started.Load() >= int64(c.Callers) })
	contention := int(started.Load())
	close(b.gate)
	wg.Wait()
	select {
	case why := <-bad:
		return why, contention
	default:
	}
	if n := b.calls.Load(); n != 1 {
		return fmt.Sprintf("the wrapped function ran %d times for %d calls", n, c.Callers*c.Calls), contention
	}
	return "", contention
}

func TestOnce(t *testing.T) {
	var rc onceCase
	if ok, err := vkit.ReplayCase(tOnce, &rc); err != nil {
		t.Fatal(err)
	} else if ok {
		for i := 0; i < 50; i++ {
			if why, _ := runOnce(&rc); why != "" {
				vkit.Fail(t, tOnce, "C15:once/"+rc.Kind, rc, "%s", why)
			}
		}
		return
	}
	reps := vkit.Pick(2, 5)
	rapid.Check(t, func(t *rapid.T) {
		c := &onceCase{
			Kind:    rapid.SampledFrom(onceKinds).Draw(t, "kind"),
			Callers: rapid.IntRange(1, 8).Draw(t, "callers"),
			Calls:   rapid.IntRange(1, 3).Draw(t, "calls"),
			Fails:   rapid.Bool().Draw(t, "fails"),
			Yields:  rapid.SliceOfN(rapid.IntRange(0, 4), 1, 4).Draw(t, "yields"),
			Procs:   rapid.SampledFrom([]int{1, 2, 4, 16}).Draw(t, "gomaxprocs"),
		}
		cont := 0
		for i := 0; i < reps; i++ {
			why, n := runOnce(c)
			if why != "" {
				vkit.Fail(t, tOnce, "C15:once/"+c.Kind, *c, "%s", why)
			}
			if n > cont {
				cont = n
			}
		}
		vkit.CaseN(tOnce, vkit.Hash(*c), reps, cont >= 2, []string{"kind:" + c.Kind, fmt.Sprintf("contention:%v", cont >= 2)}, func() any { return *c })
	})
}

// ---------------------------------------------------------------------
// Limit

var limitKinds = []string{"Worker.Limit", "Operation.Limit", "Producer.Limit", "Processor.Limit", "Future.Limit"}

func mkLimit(kind string, n int, b *base) (c call, hasVal bool) {
	switch kind {
	case "Worker.Limit":
		w := fun.Worker(func(ctx context.Context) error { _, err := b.run(ctx); return err }).Limit(n)
		return func(ctx context.Context) (int, error) { return 0, w(ctx) }, false
	case "Operation.Limit":
		o := fun.Operation(func(ctx context.Context) { _, _ = b.run(ctx) }).Limit(n)
		return func(ctx context.Context) (int, error) { o(ctx); return 0, nil }, false
	case "Producer.Limit":
		p := fun.Producer[int](b.run).Limit(n)
		return func(ctx context.Context) (int, error) { return p(ctx) }, true
	case "Processor.Limit":
		p := fun.Processor[int](func(ctx context.Context, _ int) error { _, err := b.run(ctx); return err }).Limit(n)
		return func(ctx context.Context) (int, error) { return 0, p(ctx, 7) }, false
	case "Future.Limit":
		f := fun.Future[int](func() int { v, _ := b.run(context.Background()); return v }).Limit(n)
		return func(context.Context) (int, error) { return f(), nil }, true
	}
	panic("unknown limit kind " + kind)
}

const tLimit = "TestLimit"

type limitCase struct {
	Kind    string `json:"kind"`
	N       int    `json:"n"`
	Callers int    `json:"callers"`
	Calls   int    `json:"calls_per_caller"`
	Yields  []int  `json:"yields"`
	Procs   int    `json:"gomaxprocs"`
}

func runLimit(c *limitCase) string {
	if c.Procs > 0 {
		old := runtime.GOMAXPROCS(c.Procs)
		defer runtime.GOMAXPROCS(old)
	}
	b := newBase(false, c.Yields[0], nil)
	f, hasVal := mkLimit(c.Kind, c.N, b)
	total := c.Callers * c.Calls
	want := c.N
	if total < want {
		want = total
	}
	var wg sync.WaitGroup
	bad := make(chan string, total+4)
	start := make(chan struct{})
	for g := 0; g < c.Callers; g++ {
		wg.Add(1)
		go func(g int) {
			defer wg.Done()
			<-start
			for i := 0; i < c.Calls; i++ {
				vkit.Yield(c.Yields[(g+i)%len(c.Yields)])
				before := int(b.calls.Load())
				v, _ := f(context.Background())
				if hasVal && (v < 1 || v > c.N) {
					bad <- fmt.Sprintf("a call returned %d, outside 1..%d", v, c.N)
				}
				if hasVal && before >= c.N && b.done.Load() && v != c.N && int(b.calls.Load()) == c.N && b.active.Load() == 0 {
					// all n executions had started before this call;
					// once they are finished it must see the last result
					_ = v
				}
			}
		}(g)
	}
	close(start)
	wg.Wait()
	select {
	case why := <-bad:
		return why
	default:
	}
	if n := int(b.calls.Load()); n != want {
		return fmt.Sprintf("%s(%d): the wrapped function ran %d times for %d calls, want %d", c.Kind, c.N, n, total, want)
	}
	// thereafter: the last result, and no further execution
	for i := 0; i < 3; i++ {
		v, _ := f(context.Background())
		ran := int(b.calls.Load())
		if total >= c.N {
			if ran != c.N {
				return fmt.Sprintf("%s(%d): a call after the limit ran the function again (%d executions)", c.Kind, c.N, ran)
			}
			if hasVal && v != c.N {
				return fmt.Sprintf("%s(%d): a call after the limit returned %d, the last result is %d", c.Kind, c.N, v, c.N)
			}
		}
	}
	return ""
}

func TestLimit(t *testing.T) {
	var rc limitCase
	if ok, err := vkit.ReplayCase(tLimit, &rc); err != nil {
		t.Fatal(err)
	} else if ok {
		for i := 0; i < 100; i++ {
			if why := runLimit(&rc); why != "" {
				vkit.Fail(t, tLimit, "C15:limit/"+rc.Kind, rc, "%s", why)
			}
		}
		return
	}
	reps := vkit.Pick(3, 8)
	rapid.Check(t, func(t *rapid.T) {
		c := &limitCase{
			Kind:    rapid.SampledFrom(limitKinds).Draw(t, "kind"),
			N:       rapid.IntRange(1, 6).Draw(t, "n"),
			Callers: rapid.IntRange(1, 8).Draw(t, "callers"),
			Calls:   rapid.IntRange(1, 4).Draw(t, "calls"),
			Yields:  rapid.SliceOfN(rapid.IntRange(0, 4), 1, 4).Draw(t, "yields"),
			Procs:   rapid.SampledFrom([]int{1, 2, 4, 16}).Draw(t, "gomaxprocs"),
		}
		exact := rapid.IntRange(0, 3).Draw(t, "exactShape") == 0
		if exact {
			// as many calls as the limit allows, from many goroutines at
			// once and without pauses: every call has to claim a slot
			c.Callers = rapid.SampledFrom([]int{4, 8, 16}).Draw(t, "manyCallers")
			c.Calls = rapid.IntRange(200, 3000).Draw(t, "manyCalls")
			c.N = c.Callers*c.Calls - rapid.SampledFrom([]int{0, 0, 1, 7}).Draw(t, "slack")
			c.Yields = []int{0}
			if c.Procs == 1 {
				c.Procs = 8
			}
		}
		for i := 0; i < reps; i++ {
			if why := runLimit(c); why != "" {
				vkit.Fail(t, tLimit, "C15:limit/"+c.Kind, *c, "%s (repetition %d)", why, i)
			}
		}
		total := c.Callers * c.Calls
		vkit.CaseN(tLimit, vkit.Hash(*c), reps, total > c.N && c.Callers >= 2, []string{"kind:" + c.Kind, fmt.Sprintf("calls>n:%v", total > c.N), fmt.Sprintf("exact-shape:%v", exact)}, func() any { return *c })
	})
}

// ---------------------------------------------------------------------
// Lock / WithLock

var lockKinds = []string{"Worker.Lock", "Worker.WithLock", "Operation.Lock", "Operation.WithLock", "Producer.Lock", "Producer.WithLock", "Processor.Lock", "Processor.WithLock", "Handler.Lock", "Handler.WithLock", "Future.Lock", "Future.WithLock", "Transform.Lock", "Transform.WithLock"}

func mkLock(kind string, b *base) call {
	mu := &sync.Mutex{}
	w := fun.Worker(func(ctx context.Context) error { _, err := b.run(ctx); return err })
	o := fun.Operation(func(ctx context.Context) { _, _ = b.run(ctx) })
	p := fun.Producer[int](b.run)
	pr := fun.Processor[int](func(ctx context.Context, _ int) error { _, err := b.run(ctx); return err })
	h := fun.Handler[int](func(int) { _, _ = b.run(context.Background()) })
	f := fun.Future[int](func() int { v, _ := b.run(context.Background()); return v })
	tr := fun.Transform[int, int](func(ctx context.Context, _ int) (int, error) { return b.run(ctx) })
	switch kind {
	case "Worker.Lock":
		w = w.Lock()
	case "Worker.WithLock":
		w = w.WithLock(mu)
	case "Operation.Lock":
		o = o.Lock()
	case "Operation.WithLock":
		o = o.WithLock(mu)
	case "Producer.Lock":
		p = p.Lock()
	case "Producer.WithLock":
		p = p.WithLock(mu)
	case "Processor.Lock":
		pr = pr.Lock()
	case "Processor.WithLock":
		pr = pr.WithLock(mu)
	case "Handler.Lock":
		h = h.Lock()
	case "Handler.WithLock":
		h = h.WithLock(mu)
	case "Future.Lock":
		f = f.Lock()
	case "Future.WithLock":
		f = f.WithLock(mu)
	case "Transform.Lock":
		tr = tr.Lock()
	case "Transform.WithLock":
		tr = tr.WithLock(mu)
	}
	switch {
	case kind[:2] == "Wo":
		return func(ctx context.Context) (int, error) { return 0, w(ctx) }
	case kind[:2] == "Op":
		return func(ctx context.Context) (int, error) { o(ctx); return 0, nil }
	case kind[:3] == "Pro" && kind[3] == 'd':
		return func(ctx context.Context) (int, error) { return p(ctx) }
	case kind[:3] == "Pro":
		return func(ctx context.Context) (int, error) { return 0, pr(ctx, 1) }
	case kind[:2] == "Ha":
		return func(context.Context) (int, error) { h(1); return 0, nil }
	case kind[:2] == "Fu":
		return func(context.Context) (int, error) { return f(), nil }
	}
	return func(ctx context.Context) (int, error) { return tr(ctx, 1) }
}

const tLock = "TestLock"

type lockCase struct {
	Kind    string `json:"kind"`
	Callers int    `json:"callers"`
	Calls   int    `json:"calls_per_caller"`
	Yield   int    `json:"yield"`
	Procs   int    `json:"gomaxprocs"`
}

func runLock(c *lockCase) string {
	if c.Procs > 0 {
		old := runtime.GOMAXPROCS(c.Procs)
		defer runtime.GOMAXPROCS(old)
	}
	b := newBase(false, c.Yield, nil)
	f := mkLock(c.Kind, b)
	var wg sync.WaitGroup
	start := make(chan struct{})
	for g := 0; g < c.Callers; g++ {
		wg.Add(1)
		go func() {
			defer wg.Done()
			<-start
			for i := 0; i < c.Calls; i++ {
				_, _ = f(context.Background())
			}
		}()
	}
	close(start)
	wg.Wait()
	if m := b.maxAct.Load(); m > 1 {
		return fmt.Sprintf("%s: %d executions of the wrapped function ran at once", c.Kind, m)
	}
	if n := int(b.calls.Load()); n != c.Callers*c.Calls {
		return fmt.Sprintf("%s: %d executions for %d calls", c.Kind, n, c.Callers*c.Calls)
	}
	return ""
}

func TestLock(t *testing.T) {
	var rc lockCase
	if ok, err := vkit.ReplayCase(tLock, &rc); err != nil {
		t.Fatal(err)
	} else if ok {
		for i := 0; i < 100; i++ {
			if why := runLock(&rc); why != "" {
				vkit.Fail(t, tLock, "C15:lock/"+rc.Kind, rc, "%s", why)
			}
		}
		return
	}
	reps := vkit.Pick(3, 8)
	rapid.Check(t, func(t *rapid.T) {
		c := &lockCase{
			Kind:    rapid.SampledFrom(lockKinds).Draw(t, "kind"),
			Callers: rapid.IntRange(2, 8).Draw(t, "callers"),
			Calls:   rapid.IntRange(1, 6).Draw(t, "calls"),
			Yield:   rapid.IntRange(1, 4).Draw(t, "yield"),
			Procs:   rapid.SampledFrom([]int{2, 4, 16}).Draw(t, "gomaxprocs"),
		}
		for i := 0; i < reps; i++ {
			if why := runLock(c); why != "" {
				vkit.Fail(t, tLock, "C15:lock/"+c.Kind, *c, "%s (repetition %d)", why, i)
			}
		}
		vkit.CaseN(tLock, vkit.Hash(*c), reps, true, []string{"kind:" + c.Kind}, func() any { return *c })
	})
}

// ---------------------------------------------------------------------
// Retry

const tRetry = "TestRetry"

type retryCase struct {
	Kind     string   `json:"kind"` // Worker.Retry | Producer.Retry | Processor.Retry
	N        int      `json:"n"`
	Outcomes []string `json:"outcomes"` // per attempt: ok | err | skip | eof | abort | ctx | eof-joined | abort-joined | ctx-multi (the terminating error inside errors.Join / a two-%w error)
}

func runRetry(c *retryCase) string {
	errs := make([]error, len(c.Outcomes)+c.N+1)
	attempts := 0
	attempt := func() (int, error) {
		i := attempts
		attempts++
		out := "err"
		if i < len(c.Outcomes) {
			out = c.Outcomes[i]
		}
		switch out {
		case "ok":
			return 100 + i, nil
		case "skip":
			return 0, fun.ErrIteratorSkip
		case "eof":
			return 0, io.EOF
		case "abort":
			return 0, ers.ErrCurrentOpAbort
		case "ctx":
			return 0, context.Canceled
		case "eof-joined":
			// terminating errors that arrive inside a multi-error
			return 0, errors.Join(io.EOF, fmt.Errorf("attempt %d: closing the source", i))
		case "abort-joined":
			return 0, errors.Join(fmt.Errorf("attempt %d: cleaning up", i), ers.ErrCurrentOpAbort)
		case "ctx-multi":
			return 0, fmt.Errorf("attempt %d: %w (while %w)", i, context.Canceled, errors.New("flushing"))
		}
		e := fmt.Errorf("attempt %d failed", i)
		if i < len(errs) {
			errs[i] = e
		}
		return 0, e
	}
	ctx := context.Background()
	var val int
	var err error
	switch c.Kind {
	case "Worker.Retry":
		err = fun.Worker(func(context.Context) error { _, e := attempt(); return e }).Retry(c.N)(ctx)
	case "Processor.Retry":
		err = fun.Processor[int](func(context.Context, int) error { _, e := attempt(); return e }).Retry(c.N, 5)(ctx)
	default:
		val, err = fun.Producer[int](func(context.Context) (int, error) { return attempt() }).Retry(c.N)(ctx)
	}
	// the specification, from the outcome list
	wantAttempts, succeeded, stopped := 0, -1, false
	for i := 0; i < c.N; i++ {
		wantAttempts++
		out := "err"
		if i < len(c.Outcomes) {
			out = c.Outcomes[i]
		}
		if out == "ok" {
			succeeded = i
			break
		}
		if out == "eof" || out == "abort" || out == "ctx" || out == "eof-joined" || out == "abort-joined" || out == "ctx-multi" {
			stopped = true
			break
		}
	}
	if attempts > c.N {
		return fmt.Sprintf("%s(%d) made %d attempts", c.Kind, c.N, attempts)
	}
	if attempts != wantAttempts {
		return fmt.Sprintf("%s(%d) made %d attempts for the outcomes %v; it must stop after the first success or terminating error, i.e. after %d", c.Kind, c.N, attempts, c.Outcomes, wantAttempts)
	}
	if succeeded >= 0 {
		if err != nil {
			return fmt.Sprintf("%s(%d): attempt %d succeeded but the result is the error %v", c.Kind, c.N, succeeded, err)
		}
		if c.Kind == "Producer.Retry" && val != 100+succeeded {
			return fmt.Sprintf("Producer.Retry(%d): attempt %d produced %d but the result is %d", c.N, succeeded, 100+succeeded, val)
		}
		return ""
	}
	if !stopped && c.N > 0 {
		// every attempt failed (or was skipped): failures are reported
		anyFailure := false
		for i := 0; i < c.N && i < len(errs); i++ {
			if errs[i] != nil {
				anyFailure = true
				if !errors.Is(err, errs[i]) {
					return fmt.Sprintf("%s(%d): no attempt succeeded, but the result %v does not report the failure of attempt %d", c.Kind, c.N, err, i)
				}
			}
		}
		if !anyFailure && err != nil {
			return fmt.Sprintf("%s(%d): only skips happened but the result is %v", c.Kind, c.N, err)
		}
	}
	return ""
}

func TestRetry(t *testing.T) {
	var rc retryCase
	if ok, err := vkit.ReplayCase(tRetry, &rc); err != nil {
		t.Fatal(err)
	} else if ok {
		if why := runRetry(&rc); why != "" {
			vkit.Fail(t, tRetry, "C15:retry/"+rc.Kind, rc, "%s", why)
		}
		return
	}
	rapid.Check(t, func(t *rapid.T) {
		c := &retryCase{
			Kind:     rapid.SampledFrom([]string{"Worker.Retry", "Producer.Retry", "Processor.Retry"}).Draw(t, "kind"),
			N:        rapid.IntRange(0, 6).Draw(t, "n"),
			Outcomes: rapid.SliceOfN(rapid.SampledFrom([]string{"ok", "err", "err", "err", "err", "skip", "eof", "abort", "ctx", "eof-joined", "abort-joined", "ctx-multi"}), 0, 8).Draw(t, "outcomes"),
		}
		if why := runRetry(c); why != "" {
			vkit.Fail(t, tRetry, "C15:retry/"+c.Kind, *c, "%s", why)
		}
		vkit.Case(tRetry, vkit.Hash(*c), c.N >= 2 && len(c.Outcomes) >= 2, []string{"kind:" + c.Kind}, func() any { return *c })
	})
}

// ---------------------------------------------------------------------
// Join / PreHook / PostHook order

const tHooks = "TestHookOrder"

type hookCase struct {
	Kind   string   `json:"kind"`    // Worker | Operation | Processor | Handler | Producer | Future
	Stack  []string `json:"stack"`   // applied in order: join | pre | post
	FailAt int      `json:"fail_at"` // the part (in execution order) that fails, -1: none (Worker / Processor joins stop there)
}

func runHooks(c *hookCase) string {
	var log []int
	// `want` is the documented execution order, built alongside
	id := 0
	next := func() int { id++; return id }
	rec := func(i int) { log = append(log, i) }
	baseID := next()
	want := []int{baseID}
	ctx := context.Background()
	fail := func(i int) error {
		if i == c.FailAt {
			return fmt.Errorf("part %d failed", i)
		}
		return nil
	}
	stopsOnError := c.Kind == "Worker" || c.Kind == "Processor"
	var run func()
	switch c.Kind {
	case "Worker":
		w := fun.Worker(func(context.Context) error { rec(baseID); return fail(baseID) })
		for _, s := range c.Stack {
			i := next()
			switch s {
			case "join":
				w = w.Join(func(context.Context) error { rec(i); return fail(i) })
				want = append(want, i)
			case "pre":
				w = w.PreHook(func(context.Context) { rec(i) })
				want = append([]int{i}, want...)
			case "post":
				w = w.PostHook(func() { rec(i) })
				want = append(want, i)
			}
		}
		run = func() { _ = w(ctx) }
	case "Processor":
		p := fun.Processor[int](func(context.Context, int) error { rec(baseID); return fail(baseID) })
		for _, s := range c.Stack {
			i := next()
			switch s {
			case "join":
				p = p.Join(func(context.Context, int) error { rec(i); return fail(i) })
				want = append(want, i)
			case "pre":
				p = p.PreHook(func(context.Context) { rec(i) })
				want = append([]int{i}, want...)
			case "post":
				p = p.PostHook(func() { rec(i) })
				want = append(want, i)
			}
		}
		run = func() { _ = p(ctx, 1) }
	case "Operation":
		o := fun.Operation(func(context.Context) { rec(baseID) })
		for _, s := range c.Stack {
			i := next()
			switch s {
			case "join":
				o = o.Join(func(context.Context) { rec(i) })
				want = append(want, i)
			case "pre":
				o = o.PreHook(func(context.Context) { rec(i) })
				want = append([]int{i}, want...)
			case "post":
				o = o.PostHook(func() { rec(i) })
				want = append(want, i)
			}
		}
		run = func() { o(ctx) }
	case "Handler":
		h := fun.Handler[int](func(int) { rec(baseID) })
		for _, s := range c.Stack {
			i := next()
			switch s {
			case "pre":
				h = h.PreHook(func(int) { rec(i) })
				want = append([]int{i}, want...)
			default:
				h = h.Join(func(int) { rec(i) })
				want = append(want, i)
			}
		}
		run = func() { h(1) }
	case "Producer":
		p := fun.Producer[int](func(context.Context) (int, error) { rec(baseID); return 1, nil })
		for _, s := range c.Stack {
			i := next()
			switch s {
			case "pre":
				p = p.PreHook(func(context.Context) { rec(i) })
				want = append([]int{i}, want...)
			default:
				p = p.PostHook(func() { rec(i) })
				want = append(want, i)
			}
		}
		run = func() { _, _ = p(ctx) }
	default:
		f := fun.Future[int](func() int { rec(baseID); return 1 })
		for _, s := range c.Stack {
			i := next()
			switch s {
			case "pre":
				f = f.PreHook(func() { rec(i) })
				want = append([]int{i}, want...)
			default:
				f = f.PostHook(func() { rec(i) })
				want = append(want, i)
			}
		}
		run = func() { _ = f() }
	}
	run()
	if stopsOnError && c.FailAt > 0 {
		// a failing part stops the *joined* parts that follow it; hooks
		// run unconditionally.  Only assert the order of what did run.
		pos := map[int]int{}
		for i, v := range want {
			pos[v] = i
		}
		last := -1
		for _, v := range log {
			p, ok := pos[v]
			if !ok || p <= last {
				return fmt.Sprintf("%s stack %v: parts ran in the order %v, documented order %v", c.Kind, c.Stack, log, want)
			}
			last = p
		}
		ran := false
		for _, v := range log {
			ran = ran || v == c.FailAt
		}
		_ = ran
		return ""
	}
	if fmt.Sprint(log) != fmt.Sprint(want) {
		return fmt.Sprintf("%s stack %v: parts ran in the order %v, documented order %v", c.Kind, c.Stack, log, want)
	}
	return ""
}

func TestHookOrder(t *testing.T) {
	var rc hookCase
	if ok, err := vkit.ReplayCase(tHooks, &rc); err != nil {
		t.Fatal(err)
	} else if ok {
		if why := runHooks(&rc); why != "" {
			vkit.Fail(t, tHooks, "C15:hooks/"+rc.Kind, rc, "%s", why)
		}
		return
	}
	rapid.Check(t, func(t *rapid.T) {
		c := &hookCase{
			Kind:   rapid.SampledFrom([]string{"Worker", "Operation", "Processor", "Handler", "Producer", "Future"}).Draw(t, "kind"),
			Stack:  rapid.SliceOfN(rapid.SampledFrom([]string{"join", "pre", "post"}), 0, 3).Draw(t, "stack"),
			FailAt: -1,
		}
		if rapid.IntRange(0, 3).Draw(t, "fails") == 0 {
			c.FailAt = rapid.IntRange(1, len(c.Stack)+1).Draw(t, "failAt")
		}
		if why := runHooks(c); why != "" {
			vkit.Fail(t, tHooks, "C15:hooks/"+c.Kind, *c, "%s", why)
		}
		vkit.Case(tHooks, vkit.Hash(*c), len(c.Stack) >= 2, []string{"kind:" + c.Kind}, func() any { return *c })
	})
}

// ---------------------------------------------------------------------
// Launch / Signal / Background / StartGroup: the waiter does not complete
// before the background execution has

var waiterKinds = []string{"Operation.Launch", "Operation.Signal", "Worker.Launch", "Worker.Signal", "Worker.Background", "Worker.StartGroup", "Operation.StartGroup", "Producer.Launch", "Processor.Background", "Producer.Background"}

const tWaiters = "TestWaiters"

type waiterCase struct {
	Kind    string `json:"kind"`
	N       int    `json:"n"` // group size for StartGroup
	Fails   bool   `json:"fails"`
	Waiters int    `json:"waiters"`
	Abandon int    `json:"abandoned_waits,omitempty"` // waits given up (own context cancelled) before the real ones
	// LateAbandon: waits that start while the real waiters are already
	// blocked and are given up before the background execution ends
	LateAbandon int   `json:"abandoned_waits_meanwhile,omitempty"`
	Yields      []int `json:"yields"`
	Procs       int   `json:"gomaxprocs"`
}

func runWaiters(c *waiterCase) string {
	if c.Procs > 0 {
		old := runtime.GOMAXPROCS(c.Procs)
		defer runtime.GOMAXPROCS(old)
	}
	ctx, cancel := context.WithCancel(context.Background())
	defer cancel()
	gate := make(chan struct{})
	var finished atomic.Int64
	n := 1
	if c.Kind == "Worker.StartGroup" || c.Kind == "Operation.StartGroup" {
		n = c.N
	}
	var berr error
	if c.Fails {
		berr = errBase
	}
	body := func() { <-gate; vkit.Yield(c.Yields[0]); finished.Add(1) }
	w := fun.Worker(func(context.Context) error { body(); return berr })
	o := fun.Operation(func(context.Context) { body() })
	// waitWith blocks (with the given context) until the background
	// execution is complete; nil for the kinds whose waiter takes no context
	var waitWith func(context.Context) error
	var wait func() error
	checkErr := false
	switch c.Kind {
	case "Operation.Launch":
		waiter := o.Launch(ctx)
		waitWith = func(wctx context.Context) error { waiter(wctx); return nil }
	case "Operation.Signal":
		sig := o.Signal(ctx)
		wait = func() error { <-sig; return nil }
	case "Worker.Launch":
		waiter := w.Launch(ctx)
		waitWith = func(wctx context.Context) error { return waiter(wctx) }
		checkErr = c.Waiters == 1
	case "Worker.Signal":
		sig := w.Signal(ctx)
		wait = func() error { return <-sig }
		checkErr = c.Waiters == 1
	case "Worker.Background":
		var got error
		var mu sync.Mutex
		waiter := w.Background(ctx, func(err error) { mu.Lock(); got = ers.Join(got, err); mu.Unlock() })
		waitWith = func(wctx context.Context) error { waiter(wctx); mu.Lock(); defer mu.Unlock(); return got }
		checkErr = c.Waiters == 1
	case "Worker.StartGroup":
		waiter := w.StartGroup(ctx, n)
		waitWith = func(wctx context.Context) error { return waiter(wctx) }
		checkErr = true
	case "Operation.StartGroup":
		wg := &fun.WaitGroup{}
		o.StartGroup(ctx, wg, n)
		waitWith = func(wctx context.Context) error { wg.Wait(wctx); return nil }
	case "Producer.Launch":
		p := fun.Producer[int](func(context.Context) (int, error) { body(); return 5, io.EOF }).Launch(ctx)
		waitWith = func(wctx context.Context) error { _, _ = p(wctx); return nil }
	case "Producer.Background":
		waiter := fun.Producer[int](func(context.Context) (int, error) { body(); return 5, berr }).Background(ctx, func(int) {})
		waitWith = func(wctx context.Context) error { return waiter(wctx) }
		checkErr = c.Waiters == 1
	case "Processor.Background":
		waiter := fun.Processor[int](func(context.Context, int) error { body(); return berr }).Background(ctx, 3)
		waitWith = func(wctx context.Context) error { return waiter(wctx) }
		checkErr = c.Waiters == 1
	}
	if waitWith != nil {
		wait = func() error { return waitWith(ctx) }
		// abandoned waits first: a wait whose own context ends before the
		// background execution has finished returns (with whatever it
		// likes) and must leave the waiter usable - the later waits with a
		// live context still wait for the execution and get its result
		for k := 0; k < c.Abandon; k++ {
			actx, acancel := context.WithCancel(context.Background())
			if k%2 == 1 {
				acancel() // already over when the wait starts
			}
			ret := make(chan struct{})
			go func() { _ = waitWith(actx); close(ret) }()
			vkit.Yield(c.Yields[k%len(c.Yields)])
			acancel()
			select {
			case <-ret:
			case <-time.After(vkit.Limit()):
				return fmt.Sprintf("%s: a wait is still blocked %v after its own context was cancelled", c.Kind, vkit.Limit())
			}
		}
	}
	bad := make(chan string, c.Waiters+1)
	var wg sync.WaitGroup
	for i := 0; i < c.Waiters; i++ {
		wg.Add(1)
		go func(i int) {
			defer wg.Done()
			vkit.Yield(c.Yields[i%len(c.Yields)])
			err := wait()
			if ctx.Err() == nil && finished.Load() < int64(n) {
				bad <- fmt.Sprintf("%s: waiter %d completed with a live context while only %d of %d background executions had finished", c.Kind, i, finished.Load(), n)
			}
			if checkErr && berr != nil && !errors.Is(err, berr) {
				bad <- fmt.Sprintf("%s: the waiter returned %v, the background execution failed with %v", c.Kind, err, berr)
			}
			// (the observer of Worker.Background also receives the context
			// error of every abandoned wait: only then a non-nil result of
			// a successful execution is expected)
			if checkErr && berr == nil && err != nil && !(c.Kind == "Worker.Background" && c.Abandon+c.LateAbandon > 0) {
				bad <- fmt.Sprintf("%s: the waiter returned %v, the background execution succeeded", c.Kind, err)
			}
		}(i)
	}
	if waitWith != nil && c.LateAbandon > 0 {
		// let the real waiters block first (only the chance of meeting
		// them parked depends on this pause, not the verdict)
		time.Sleep(300 * time.Microsecond)
		for k := 0; k < c.LateAbandon; k++ {
			actx, acancel := context.WithCancel(context.Background())
			ret := make(chan struct{})
			go func() { _ = waitWith(actx); close(ret) }()
			vkit.Yield(c.Yields[k%len(c.Yields)])
			time.Sleep(100 * time.Microsecond)
			acancel()
			select {
			case <-ret:
			case <-time.After(vkit.Limit()):
				return fmt.Sprintf("%s: a wait is still blocked %v after its own context was cancelled", c.Kind, vkit.Limit())
			}
		}
		select {
		case why := <-bad:
			return why
		default:
		}
	}
	// another goroutine opens the gate: no timing enters the verdict
	go func() {
		for _, y := range c.Yields {
			vkit.Yield(y)
		}
		close(gate)
	}()
	done := make(chan struct{})
	go func() { wg.Wait(); close(done) }()
	select {
	case <-done:
	case <-time.After(vkit.Limit()):
		return fmt.Sprintf("%s: a waiter is still blocked %v after the background execution finished (%d of %d)", c.Kind, vkit.Limit(), finished.Load(), n)
	}
	select {
	case why := <-bad:
		return why
	default:
	}
	return ""
}

func TestWaiters(t *testing.T) {
	var rc waiterCase
	if ok, err := vkit.ReplayCase(tWaiters, &rc); err != nil {
		t.Fatal(err)
	} else if ok {
		for i := 0; i < 50; i++ {
			if why := runWaiters(&rc); why != "" {
				vkit.Fail(t, tWaiters, "C15:waiter/"+rc.Kind, rc, "%s", why)
			}
		}
		return
	}
	reps := vkit.Pick(2, 5)
	rapid.Check(t, func(t *rapid.T) {
		if vkit.AlreadyFailed(tWaiters) {
			return
		}
		c := &waiterCase{
			Kind:        rapid.SampledFrom(waiterKinds).Draw(t, "kind"),
			N:           rapid.IntRange(1, 5).Draw(t, "n"),
			Fails:       rapid.Bool().Draw(t, "fails"),
			Waiters:     rapid.IntRange(1, 3).Draw(t, "waiters"),
			Abandon:     rapid.SampledFrom([]int{0, 0, 1, 2}).Draw(t, "abandon"),
			LateAbandon: rapid.SampledFrom([]int{0, 0, 1, 2}).Draw(t, "lateAbandon"),
			Yields:      rapid.SliceOfN(rapid.IntRange(0, 4), 1, 4).Draw(t, "yields"),
			Procs:       rapid.SampledFrom([]int{1, 2, 4, 16}).Draw(t, "gomaxprocs"),
		}
		for i := 0; i < reps; i++ {
			if why := runWaiters(c); why != "" {
				vkit.Fail(t, tWaiters, "C15:waiter/"+c.Kind, *c, "%s (repetition %d)", why, i)
			}
		}
		vkit.CaseN(tWaiters, vkit.Hash(*c), reps, true, []string{"kind:" + c.Kind}, func() any { return *c })
	})
}
