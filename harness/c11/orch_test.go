// Package c11 decides property C11: the Orchestrator, Group, the worker
// pools and the Cleanup service run all submitted work and collect all
// errors.
package c11

import (
	"bytes"
	"context"
	"errors"
	"fmt"
	"io"
	"runtime"
	"strconv"
	"sync"
	"sync/atomic"
	"testing"
	"time"

	"github.com/tychoish/fun"
	"github.com/tychoish/fun/pubsub"
	"github.com/tychoish/fun/srv"
	"github.com/tychoish/fun/verifhook"
	"pgregory.net/rapid"

	"verif/harness/vkit"
)

func TestMain(m *testing.M) { vkit.Main(m) }

// member is an instrumented service.
type member struct {
	svc      *srv.Service
	runs     atomic.Int64
	done     atomic.Bool // Run (and Cleanup) have returned
	err      error
	outcome  string
	ctxEnded atomic.Int64 // stamp at which its context ended (0: it returned by itself)
	gate     chan struct{}
}

type Member struct {
	Outcome string `json:"outcome"` // ok | error | panic | block-ok | block-error | ctx-then-cleanup-error (Run returns ctx.Err() when told to stop, the Cleanup hook fails)
	State   string `json:"state"`   // unstarted | running | finished | starting (orchestrator only: somebody's Start call is in flight)   (when it is handed over)
	When    string `json:"when"`    // before | after   (the orchestrator / group starts)
	Yield   int    `json:"yield"`
}

func goid() int {
	buf := make([]byte, 64)
	buf = buf[:runtime.Stack(buf, false)]
	buf = bytes.TrimPrefix(buf, []byte("goroutine "))
	if i := bytes.IndexByte(buf, ' '); i > 0 {
		n, _ := strconv.Atoi(string(buf[:i]))
		return n
	}
	return -1
}

func mkMember(i int, m Member, clock *atomic.Int64) *member {
	mm := &member{outcome: m.Outcome, gate: make(chan struct{})}
	if m.Outcome == "error" || m.Outcome == "block-error" || m.Outcome == "ctx-then-cleanup-error" {
		mm.err = fmt.Errorf("member %d failed", i)
	}
	mm.svc = &srv.Service{
		Name: fmt.Sprintf("member-%d", i),
		Run: func(ctx context.Context) error {
			mm.runs.Add(1)
			vkit.Yield(m.Yield)
			switch m.Outcome {
			case "panic":
				panic(fmt.Sprintf("member %d panics", i))
			case "block-ok", "block-error":
				<-ctx.Done()
				mm.ctxEnded.Store(clock.Add(1))
			case "ctx-then-cleanup-error":
				// Run only reports that it was told to stop; the real
				// failure comes from the Cleanup hook
				<-ctx.Done()
				mm.ctxEnded.Store(clock.Add(1))
				return ctx.Err()
			}
			return mm.err
		},
		Cleanup: func() error {
			vkit.Yield(m.Yield)
			mm.done.Store(true)
			if m.Outcome == "ctx-then-cleanup-error" {
				return mm.err
			}
			return nil
		},
	}
	return mm
}

// ---------------------------------------------------------------------
// Orchestrator

const tOrch = "TestOrchestrator"

type orchCase struct {
	Members    []Member `json:"members"`
	Concurrent bool     `json:"concurrent_first_adds,omitempty"` // the members added before Start are added by one goroutine each, all at once
	Procs      int      `json:"gomaxprocs"`
}

func runOrch(c *orchCase) (string, string) {
	if c.Procs > 0 {
		old := runtime.GOMAXPROCS(c.Procs)
		defer runtime.GOMAXPROCS(old)
	}
	limit := vkit.Limit()
	var clock atomic.Int64
	ctx, cancel := context.WithCancel(context.Background())
	defer cancel()
	own, cancelOwn := context.WithCancel(context.Background()) // context of members that were started elsewhere
	defer cancelOwn()
	orc := &srv.Orchestrator{Name: "orc"}
	ms := make([]*member, len(c.Members))
	accepted := make([]bool, len(c.Members))
	add := func(i int) (string, string) {
		m := c.Members[i]
		mm := mkMember(i, m, &clock)
		ms[i] = mm
		switch m.State {
		case "starting":
			// somebody else's Start call is still in flight when the
			// member is handed over: it is held at the point where the
			// service goroutines have been launched and Start has not
			// returned yet (build tag verif)
			entered, release := make(chan struct{}), make(chan struct{})
			var target atomic.Int64
			target.Store(-1)
			// other services may be started meanwhile (by the running
			// orchestrator): only the call made by our goroutine is held
			verifhook.Set("srv.Service.Start.launched", func() {
				if int64(goid()) == target.Load() {
					close(entered)
					<-release
				}
			})
			startErr := make(chan error, 1)
			go func() { target.Store(int64(goid())); startErr <- mm.svc.Start(own) }()
			select {
			case <-entered:
			case <-time.After(limit):
				verifhook.Clear()
				close(release)
				return "harness", "the Start hook was not reached"
			}
			verifhook.Clear()
			accepted[i] = orc.Add(mm.svc) == nil
			// give a running orchestrator the time to look at the member
			time.Sleep(2 * time.Millisecond)
			close(release)
			if err := <-startErr; err != nil {
				return "harness", fmt.Sprintf("starting member %d: %v", i, err)
			}
			return "", ""
		case "running":
			if err := mm.svc.Start(own); err != nil {
				return "harness", fmt.Sprintf("starting member %d: %v", i, err)
			}
		case "finished":
			fctx, fcancel := context.WithCancel(context.Background())
			if err := mm.svc.Start(fctx); err != nil {
				fcancel()
				return "harness", fmt.Sprintf("starting member %d: %v", i, err)
			}
			fcancel()
			_ = mm.svc.Wait()
		}
		accepted[i] = orc.Add(mm.svc) == nil
		return "", ""
	}
	if c.Concurrent {
		// the first Adds on the zero-value orchestrator arrive from
		// several goroutines at once
		var wg sync.WaitGroup
		var firstKey, firstWhy atomic.Value
		release := make(chan struct{})
		for i, m := range c.Members {
			if m.When == "before" {
				wg.Add(1)
				go func(i int) {
					defer wg.Done()
					<-release
					if k, why := add(i); why != "" {
						firstKey.Store(k)
						firstWhy.Store(why)
					}
				}(i)
			}
		}
		close(release)
		wg.Wait()
		if why, _ := firstWhy.Load().(string); why != "" {
			return firstKey.Load().(string), why
		}
	} else {
		for i, m := range c.Members {
			if m.When == "before" {
				if k, why := add(i); why != "" {
					return k, why
				}
			}
		}
	}
	if err := orc.Start(ctx); err != nil {
		return "start", fmt.Sprintf("Orchestrator.Start: %v", err)
	}
	for i, m := range c.Members {
		if m.When == "after" {
			vkit.Yield(m.Yield)
			if k, why := add(i); why != "" {
				return k, why
			}
		}
	}
	// let the orchestrator pick everything up: every accepted member
	// that was not started elsewhere gets started
	ok := vkit.Eventually(limit, func() bool {
		for i, mm := range ms {
			if accepted[i] && c.Members[i].State == "unstarted" && mm.runs.Load() == 0 {
				return false
			}
		}
		return true
	})
	if !ok {
		return "not-started", "an accepted service was not started although the orchestrator kept running"
	}
	stopStamp := clock.Add(1)
	_ = stopStamp
	cancel()
	waitDone := make(chan error, 1)
	go func() { waitDone <- orc.Wait() }()
	// members that were running on their own context are still running:
	// the orchestrator has to await them
	anyOwn := false
	for i, m := range c.Members {
		if accepted[i] && (m.State == "running" || m.State == "starting") && (m.Outcome == "block-ok" || m.Outcome == "block-error" || m.Outcome == "ctx-then-cleanup-error") {
			anyOwn = true
		}
	}
	if anyOwn {
		select {
		case <-waitDone:
			return "not-awaited", "Orchestrator.Wait returned while a member that was already running when it was added is still running"
		case <-time.After(20 * time.Millisecond):
		}
	}
	cancelOwn()
	var werr error
	select {
	case werr = <-waitDone:
	case <-time.After(limit):
		return "stuck", fmt.Sprintf("Orchestrator.Wait has not returned %v after every member was told to end", limit)
	}
	for i, mm := range ms {
		if !accepted[i] {
			continue
		}
		if n := mm.runs.Load(); n > 1 {
			return "twice", fmt.Sprintf("member %d was run %d times", i, n)
		}
		if mm.runs.Load() == 1 && !mm.done.Load() {
			return "not-awaited", fmt.Sprintf("Orchestrator.Wait returned before member %d (%s, handed over %s) had returned from its Cleanup", i, c.Members[i].Outcome, c.Members[i].State)
		}
		if mm.runs.Load() == 1 {
			if mm.err != nil && !errors.Is(werr, mm.err) {
				return "error-lost", fmt.Sprintf("the failure of member %d (%s, handed over %s) is not in the result of Orchestrator.Wait: %v", i, c.Members[i].Outcome, c.Members[i].State, werr)
			}
			if mm.outcome == "panic" && !errors.Is(werr, fun.ErrRecoveredPanic) {
				return "error-lost", fmt.Sprintf("member %d panicked but Orchestrator.Wait returned %v", i, werr)
			}
		}
	}
	return "", ""
}

func genMember(t *rapid.T) Member {
	return Member{
		Outcome: rapid.SampledFrom([]string{"ok", "error", "panic", "block-ok", "block-error", "ctx-then-cleanup-error"}).Draw(t, "outcome"),
		State:   rapid.SampledFrom([]string{"unstarted", "unstarted", "running", "finished"}).Draw(t, "state"),
		When:    rapid.SampledFrom([]string{"before", "after"}).Draw(t, "when"),
		Yield:   rapid.IntRange(0, 4).Draw(t, "yield"),
	}
}

func TestOrchestrator(t *testing.T) {
	var rc orchCase
	if ok, err := vkit.ReplayCase(tOrch, &rc); err != nil {
		t.Fatal(err)
	} else if ok {
		for i := 0; i < 30; i++ {
			if k, why := runOrch(&rc); why != "" {
				vkit.Fail(t, tOrch, "C11:orchestrator/"+k, rc, "%s (repetition %d)", why, i)
			}
		}
		return
	}
	reps := vkit.Pick(2, 4)
	rapid.Check(t, func(t *rapid.T) {
		if vkit.AlreadyFailed(tOrch) {
			return
		}
		c := &orchCase{Procs: rapid.SampledFrom([]int{1, 2, 4, 16}).Draw(t, "gomaxprocs")}
		n := rapid.IntRange(1, 6).Draw(t, "members")
		nonOK, late := false, false
		for i := 0; i < n; i++ {
			m := genMember(t)
			if m.State == "running" && vkit.Known("C11:orchestrator/not-awaited") {
				vkit.Excluded(tOrch, "C11:orchestrator/not-awaited")
				m.State = "unstarted"
			}
			if m.When == "after" && m.State != "finished" && rapid.IntRange(0, 4).Draw(t, "starting") == 0 {
				m.State = "starting"
			}
			c.Members = append(c.Members, m)
			nonOK = nonOK || m.Outcome != "ok"
			late = late || m.When == "after"
		}
		before := 0
		for _, m := range c.Members {
			if m.When == "before" {
				before++
			}
		}
		if before >= 2 {
			c.Concurrent = rapid.IntRange(0, 2).Draw(t, "concurrentAdds") == 0
		}
		n0 := reps
		if c.Concurrent {
			n0 = reps * 8 // the window of the racing first Adds is narrow
		}
		for i := 0; i < n0; i++ {
			if k, why := runOrch(c); why != "" {
				vkit.Fail(t, tOrch, "C11:orchestrator/"+k, *c, "%s (repetition %d)", why, i)
			}
		}
		vkit.CaseN(tOrch, vkit.Hash(*c), n0, n >= 2 && (nonOK || late), []string{fmt.Sprintf("members:%d", n), fmt.Sprintf("late-add:%v", late), fmt.Sprintf("concurrent-first-adds:%v", c.Concurrent)}, func() any { return *c })
	})
}

// ---------------------------------------------------------------------
// Group

const tGroup = "TestGroup"

type groupCase struct {
	Members []Member `json:"members"`          // State: unstarted (the group starts it) | running / finished (somebody else started it, on a context of its own, before the group reached it); When unused
	Ending  string   `json:"ending"`           // cancel | close
	EndAt   string   `json:"end_at,omitempty"` // "" : once every member is up | taken: the moment the group has read its last member (its start goroutines are still in flight)
	Procs   int      `json:"gomaxprocs"`
}

func runGroup(c *groupCase) (string, string) {
	if c.Procs > 0 {
		old := runtime.GOMAXPROCS(c.Procs)
		defer runtime.GOMAXPROCS(old)
	}
	limit := vkit.Limit()
	var clock atomic.Int64
	ctx, cancel := context.WithCancel(context.Background())
	defer cancel()
	ms := make([]*member, len(c.Members))
	svcs := make([]*srv.Service, len(c.Members))
	for i, m := range c.Members {
		ms[i] = mkMember(i, m, &clock)
		svcs[i] = ms[i].svc
	}
	// members that somebody else started before the group reaches them:
	// the group cannot start them again, but it still awaits them and
	// reports their failures
	var ownCancels []context.CancelFunc
	defer func() {
		for _, cf := range ownCancels {
			cf()
		}
	}()
	for i, m := range c.Members {
		if m.State != "running" && m.State != "finished" {
			continue
		}
		ownCtx, ownCancel := context.WithCancel(context.Background())
		ownCancels = append(ownCancels, ownCancel)
		if err := ms[i].svc.Start(ownCtx); err != nil {
			return "harness", fmt.Sprintf("starting member %d on its own: %v", i, err)
		}
		if m.State == "finished" {
			ownCancel()
			fin := make(chan struct{})
			go func() { _ = ms[i].svc.Wait(); close(fin) }()
			select {
			case <-fin:
			case <-time.After(limit):
				return "harness", fmt.Sprintf("member %d, started on its own and cancelled, has not finished", i)
			}
		}
	}
	// the group reads its members from an iterator of the harness, which
	// therefore knows when the group has taken the last one (a member
	// that was started elsewhere gives no other sign of having been
	// reached)
	var g *srv.Service
	var stop int64
	var taken atomic.Bool
	end := func() {
		stop = clock.Add(1)
		if c.Ending == "close" {
			g.Close()
		} else {
			cancel()
		}
	}
	next := 0
	g = srv.Group(fun.Producer[*srv.Service](func(context.Context) (*srv.Service, error) {
		if next < len(svcs) {
			next++
			return svcs[next-1], nil
		}
		if !taken.Swap(true) && c.EndAt == "taken" {
			// the group is told to end while the goroutines that
			// start (and register) its members are still in flight
			end()
		}
		return nil, io.EOF
	}).Iterator())
	if err := g.Start(ctx); err != nil {
		return "start", fmt.Sprintf("Group.Start: %v", err)
	}
	if c.EndAt != "taken" {
		// every member is taken and started
		if !vkit.Eventually(limit, func() bool {
			for _, mm := range ms {
				if mm.runs.Load() == 0 {
					return false
				}
			}
			return taken.Load()
		}) {
			return "not-started", "the group did not start every member"
		}
		// the blocking members stay up while the group's own context is live:
		// nothing has told the group to end yet
		time.Sleep(2 * time.Millisecond)
		end()
	} else if !vkit.Eventually(limit, taken.Load) {
		return "not-started", "the group did not read its members"
	}
	var werr error
	done := make(chan struct{})
	go func() { werr = g.Wait(); close(done) }()
	// members running on a context of their own are ended a little later:
	// the group has to go on waiting for them
	time.Sleep(time.Millisecond)
	for _, cf := range ownCancels {
		cf()
	}
	select {
	case <-done:
	case <-time.After(limit):
		return "stuck", fmt.Sprintf("Group.Wait has not returned %v after the group was told to end", limit)
	}
	for i, mm := range ms {
		if n := mm.runs.Load(); n != 1 {
			return "twice", fmt.Sprintf("member %d was run %d times", i, n)
		}
		if e := mm.ctxEnded.Load(); e != 0 && e < stop && c.Members[i].State != "finished" {
			return "member-cancelled", fmt.Sprintf("the context of member %d ended (stamp %d) before the group was told to end (stamp %d)", i, e, stop)
		}
		if !mm.done.Load() {
			return "not-awaited", fmt.Sprintf("Group.Wait returned before member %d had returned", i)
		}
		if mm.err != nil && !errors.Is(werr, mm.err) {
			return "error-lost", fmt.Sprintf("the failure of member %d is not in the result of Group.Wait: %v", i, werr)
		}
		if mm.outcome == "panic" && !errors.Is(werr, fun.ErrRecoveredPanic) {
			return "error-lost", fmt.Sprintf("member %d panicked but Group.Wait returned %v", i, werr)
		}
	}
	return "", ""
}

func TestGroup(t *testing.T) {
	var rc groupCase
	if ok, err := vkit.ReplayCase(tGroup, &rc); err != nil {
		t.Fatal(err)
	} else if ok {
		for i := 0; i < 30; i++ {
			if k, why := runGroup(&rc); why != "" {
				vkit.Fail(t, tGroup, "C11:group/"+k, rc, "%s (repetition %d)", why, i)
			}
		}
		return
	}
	reps := vkit.Pick(2, 4)
	rapid.Check(t, func(t *rapid.T) {
		if vkit.AlreadyFailed(tGroup) {
			return
		}
		c := &groupCase{Ending: rapid.SampledFrom([]string{"cancel", "close"}).Draw(t, "ending"), EndAt: rapid.SampledFrom([]string{"", "", "taken"}).Draw(t, "endAt"), Procs: rapid.SampledFrom([]int{1, 2, 4, 16}).Draw(t, "gomaxprocs")}
		n := rapid.IntRange(1, 6).Draw(t, "members")
		nonOK := false
		for i := 0; i < n; i++ {
			m := genMember(t)
			if (m.Outcome == "block-ok" || m.Outcome == "block-error" || m.Outcome == "ctx-then-cleanup-error") && vkit.Known("C11:group/member-cancelled") {
				vkit.Excluded(tGroup, "C11:group/member-cancelled")
				m.Outcome = "ok"
			}
			c.Members = append(c.Members, m)
			nonOK = nonOK || m.Outcome != "ok" || m.State != "unstarted"
		}
		for i := 0; i < reps; i++ {
			if k, why := runGroup(c); why != "" {
				vkit.Fail(t, tGroup, "C11:group/"+k, *c, "%s (repetition %d)", why, i)
			}
		}
		vkit.CaseN(tGroup, vkit.Hash(*c), reps, n >= 2 && nonOK, []string{fmt.Sprintf("members:%d", n), "ending:" + c.Ending, "end-at:" + c.EndAt}, func() any { return *c })
	})
}

// ---------------------------------------------------------------------
// WorkerPool / HandlerWorkerPool / Cleanup

const tPool = "TestPools"

type poolCase struct {
	Kind      string   `json:"kind"` // WorkerPool | HandlerWorkerPool | Cleanup
	Workers   int      `json:"workers"`
	Producers int      `json:"producers"`
	Jobs      []string `json:"jobs"`   // ok | error | panic
	Early     int      `json:"early"`  // jobs added before the service starts
	Ending    string   `json:"ending"` // close | cancel
	// CleanupTimeout (Cleanup only): 0 (no limit) or a limit far longer
	// than any case runs.  Negative values are not generated: the
	// documentation ("when non-zero") and the code (timeout > 0) disagree
	// about them and the property does not settle it.
	CleanupTimeout time.Duration `json:"cleanup_timeout,omitempty"`
	// Racing: that many producers keep adding further (succeeding) jobs
	// while the service is told to end, until the queue refuses them
	Racing int   `json:"racing_producers,omitempty"`
	Yields []int `json:"yields"`
	Procs  int   `json:"gomaxprocs"`
}

func runPool(c *poolCase) (string, string) {
	if c.Procs > 0 {
		old := runtime.GOMAXPROCS(c.Procs)
		defer runtime.GOMAXPROCS(old)
	}
	limit := vkit.Limit()
	ctx, cancel := context.WithCancel(context.Background())
	defer cancel()
	q := pubsub.NewUnlimitedQueue[fun.Worker]()
	n := len(c.Jobs)
	runs := make([]atomic.Int64, n)
	jerr := make([]error, n)
	accepted := make([]atomic.Bool, n)
	var handled sync.Map // errors seen by the handler
	var ran atomic.Int64
	job := func(i int) fun.Worker {
		switch c.Jobs[i] {
		case "error":
			jerr[i] = fmt.Errorf("job %d failed", i)
		case "ctx-error":
			// an ordinary failure whose cause happens to be a timeout of
			// something the job did itself
			jerr[i] = fmt.Errorf("job %d: dialing the backend: %w", i, context.DeadlineExceeded)
		case "eof-error":
			jerr[i] = fmt.Errorf("job %d: reading its input: %w", i, io.EOF)
		}
		return func(context.Context) error {
			runs[i].Add(1)
			ran.Add(1)
			vkit.Yield(c.Yields[i%len(c.Yields)])
			switch c.Jobs[i] {
			case "panic":
				panic(fmt.Sprintf("job %d panics", i))
			case "panic-eof":
				// a panic is a panic, whatever its value wraps (e.g.
				// fun.Invariant.Must(closedQueue.Add(x)): ErrQueueClosed
				// wraps io.EOF)
				panic(fmt.Errorf("job %d: invariant violated: %w", i, io.EOF))
			case "panic-ctx":
				panic(fmt.Errorf("job %d: invariant violated: %w", i, context.Canceled))
			}
			return jerr[i]
		}
	}
	opts := []fun.OptionProvider[*fun.WorkerGroupConf]{fun.WorkerGroupConfNumWorkers(c.Workers), fun.WorkerGroupConfContinueOnError(), fun.WorkerGroupConfContinueOnPanic()}
	var s *srv.Service
	switch c.Kind {
	case "WorkerPool":
		s = srv.WorkerPool(q, opts...)
	case "HandlerWorkerPool":
		s = srv.HandlerWorkerPool(q, func(err error) {
			if err != nil {
				handled.Store(err, true)
			}
		}, opts...)
	default:
		s = srv.Cleanup(q, c.CleanupTimeout)
	}
	addJob := func(i int) {
		if q.Add(job(i)) == nil {
			accepted[i].Store(true)
		}
	}
	for i := 0; i < c.Early && i < n; i++ {
		addJob(i)
	}
	if err := s.Start(ctx); err != nil {
		return "start", fmt.Sprintf("Start: %v", err)
	}
	var pwg sync.WaitGroup
	for p := 0; p < c.Producers; p++ {
		pwg.Add(1)
		go func(p int) {
			defer pwg.Done()
			for i := c.Early + p; i < n; i += c.Producers {
				vkit.Yield(c.Yields[(i+p)%len(c.Yields)])
				addJob(i)
			}
		}(p)
	}
	pwg.Wait()
	total := 0
	for i := range accepted {
		if accepted[i].Load() {
			total++
		}
	}
	if c.Kind != "Cleanup" {
		// accepted while the pool keeps running: every job runs
		if !vkit.Eventually(limit, func() bool { return int(ran.Load()) >= total }) {
			return "job-not-run", fmt.Sprintf("%s: only %d of %d accepted jobs ran although the pool kept running for %v", c.Kind, ran.Load(), total, limit)
		}
	} else if ran.Load() != 0 {
		return "cleanup-early", fmt.Sprintf("Cleanup service ran %d functions before its shutdown", ran.Load())
	}
	// producers racing the shutdown
	const maxExtra = 3000
	extraRuns := make([]atomic.Int64, maxExtra)
	extraAccepted := make([]atomic.Bool, maxExtra)
	var extraNext atomic.Int64
	var rwg sync.WaitGroup
	stopRacing := make(chan struct{})
	for p := 0; p < c.Racing; p++ {
		rwg.Add(1)
		go func() {
			defer rwg.Done()
			for {
				select {
				case <-stopRacing:
					return
				default:
				}
				k := int(extraNext.Add(1)) - 1
				if k >= maxExtra {
					return
				}
				if q.Add(func(context.Context) error { extraRuns[k].Add(1); return nil }) != nil {
					return // the queue is closed: the shutdown has got this far
				}
				extraAccepted[k].Store(true)
			}
		}()
	}
	if c.Racing > 0 {
		vkit.Yield(c.Yields[0])
	}
	if c.Ending == "close" {
		s.Close()
	} else {
		cancel()
	}
	var werr error
	done := make(chan struct{})
	go func() { werr = s.Wait(); close(done) }()
	select {
	case <-done:
	case <-time.After(limit):
		close(stopRacing)
		return "stuck", fmt.Sprintf("%s: Wait has not returned %v after the service was told to end", c.Kind, limit)
	}
	close(stopRacing)
	rwg.Wait()
	nExtra, ranExtra := 0, 0
	for k := range extraRuns {
		r := extraRuns[k].Load()
		if r > 1 {
			return "twice", fmt.Sprintf("%s: a job added while the service was shutting down ran %d times", c.Kind, r)
		}
		if extraAccepted[k].Load() {
			nExtra++
			ranExtra += int(r)
		}
	}
	if c.Kind == "Cleanup" && ranExtra != nExtra {
		// Wait has returned: whatever the queue accepted before it was
		// closed is part of "accepted before its shutdown"
		return "job-not-run", fmt.Sprintf("Cleanup: %d functions were accepted (Add returned nil) while the service was shutting down, %d of them ran", nExtra, ranExtra)
	}
	for i := 0; i < n; i++ {
		r := runs[i].Load()
		if r > 1 {
			return "twice", fmt.Sprintf("%s: job %d ran %d times", c.Kind, i, r)
		}
		if !accepted[i].Load() {
			continue
		}
		if r != 1 {
			return "job-not-run", fmt.Sprintf("%s: job %d was accepted (Add returned nil) before the shutdown but ran %d times (%d of %d accepted jobs ran)", c.Kind, i, r, ran.Load(), total)
		}
		switch c.Jobs[i] {
		case "error", "ctx-error", "eof-error":
			_, seen := handled.Load(jerr[i])
			if !errors.Is(werr, jerr[i]) && !seen {
				return "error-lost", fmt.Sprintf("%s: the error of job %d is neither in Wait's result (%v) nor was it seen by the handler", c.Kind, i, werr)
			}
		case "panic", "panic-eof", "panic-ctx":
			if !errors.Is(werr, fun.ErrRecoveredPanic) {
				return "error-lost", fmt.Sprintf("%s: job %d panicked (%s) but Wait returned %v", c.Kind, i, c.Jobs[i], werr)
			}
		}
	}
	return "", ""
}

func TestPools(t *testing.T) {
	var rc poolCase
	if ok, err := vkit.ReplayCase(tPool, &rc); err != nil {
		t.Fatal(err)
	} else if ok {
		for i := 0; i < 30; i++ {
			if k, why := runPool(&rc); why != "" {
				vkit.Fail(t, tPool, "C11:"+rc.Kind+"/"+k, rc, "%s (repetition %d)", why, i)
			}
		}
		return
	}
	reps := vkit.Pick(2, 4)
	rapid.Check(t, func(t *rapid.T) {
		if vkit.AlreadyFailed(tPool) {
			return
		}
		c := &poolCase{
			Kind:      rapid.SampledFrom([]string{"WorkerPool", "HandlerWorkerPool", "Cleanup", "Cleanup"}).Draw(t, "kind"),
			Workers:   rapid.IntRange(1, 5).Draw(t, "workers"),
			Producers: rapid.IntRange(1, 4).Draw(t, "producers"),
			Jobs:      rapid.SliceOfN(rapid.SampledFrom([]string{"ok", "ok", "ok", "error", "error", "panic", "panic", "panic-eof", "panic-ctx", "ctx-error", "eof-error"}), 0, 60).Draw(t, "jobs"),
			Ending:    rapid.SampledFrom([]string{"close", "cancel"}).Draw(t, "ending"),
			Yields:    rapid.SliceOfN(rapid.IntRange(0, 3), 1, 5).Draw(t, "yields"),
			Procs:     rapid.SampledFrom([]int{1, 2, 4, 16}).Draw(t, "gomaxprocs"),
		}
		if c.Kind != "Cleanup" {
			// the pools document that they follow the worker-group
			// semantics of their options, under which an error that is a
			// context error or io.EOF ends the group / the worker and is
			// not reported (C03); only the Cleanup service promises to
			// isolate every function whatever it returns
			for i, j := range c.Jobs {
				if j == "ctx-error" || j == "eof-error" {
					c.Jobs[i] = "error"
				}
			}
		}
		c.Early = rapid.IntRange(0, len(c.Jobs)).Draw(t, "early")
		if c.Kind == "Cleanup" && rapid.Bool().Draw(t, "cleanupTimeout") {
			c.CleanupTimeout = time.Minute
		}
		if rapid.IntRange(0, 2).Draw(t, "racing") == 0 {
			c.Racing = rapid.IntRange(1, 4).Draw(t, "racingProducers")
		}
		if c.Kind == "HandlerWorkerPool" {
			// a panicking job is reported through Wait, and the handler
			// is also the service's ErrorHandler
		}
		for i := 0; i < reps; i++ {
			if k, why := runPool(c); why != "" {
				vkit.Fail(t, tPool, "C11:"+c.Kind+"/"+k, *c, "%s (repetition %d)", why, i)
			}
		}
		nonOK := false
		for _, j := range c.Jobs {
			nonOK = nonOK || j != "ok"
		}
		vkit.CaseN(tPool, vkit.Hash(*c), reps, len(c.Jobs) >= 2 && (nonOK || c.Early < len(c.Jobs)), []string{"kind:" + c.Kind, "ending:" + c.Ending}, func() any { return *c })
	})
}
