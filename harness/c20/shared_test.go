package c20

import (
	"context"
	"fmt"
	"runtime"
	"sort"
	"sync"
	"testing"
	"time"

	"github.com/tychoish/fun"
	"github.com/tychoish/fun/pubsub"
	"pgregory.net/rapid"

	"verif/harness/vkit"
)

// One Queue iterator read by several goroutines (Iterator.ReadOne "IS safe
// for concurrent use"; Queue.Producer has "the same semantics as the
// Iterator" and holds the queue's lock for every step).  The iterator still
// yields every item exactly once - to whichever reader asks - continues
// with items added later without skipping any, each reader sees increasing
// positions, and all readers finish when the queue is closed.

const tShared = "TestSharedQueueIterator"

type sharedCase struct {
	Via     string `json:"via"` // iterator | producer (Queue) | deque-iterator | deque-producer (Deque.ProducerBlocking)
	Readers int    `json:"readers"`
	Initial int    `json:"initial"`
	Adds    int    `json:"adds"`
	Yields  []int  `json:"yields"` // between the adds
	Procs   int    `json:"gomaxprocs"`
}

func runShared(c *sharedCase) (string, string) {
	if c.Procs > 0 {
		old := runtime.GOMAXPROCS(c.Procs)
		defer runtime.GOMAXPROCS(old)
	}
	limit := vkit.Limit()
	var read fun.Producer[int]
	var add func(int) error
	var closeBox func() error
	if c.Via == "deque-iterator" || c.Via == "deque-producer" {
		dq := pubsub.NewUnlimitedDeque[int]()
		add, closeBox = dq.PushBack, dq.Close
		for i := 0; i < c.Initial; i++ {
			_ = add(i)
		}
		read = dq.ProducerBlocking()
		if c.Via == "deque-iterator" {
			read = dq.ProducerBlocking().Iterator().ReadOne
		}
	} else {
		q := pubsub.NewUnlimitedQueue[int]()
		add, closeBox = q.Add, q.Close
		for i := 0; i < c.Initial; i++ {
			_ = add(i)
		}
		read = q.Producer()
		if c.Via == "iterator" {
			read = q.Iterator().ReadOne
		}
	}
	ctx, cancel := context.WithCancel(context.Background())
	defer cancel()
	var mu sync.Mutex
	got := make([][]int, c.Readers)
	total := 0
	ends := make([]error, c.Readers)
	var wg sync.WaitGroup
	for r := 0; r < c.Readers; r++ {
		wg.Add(1)
		go func(r int) {
			defer wg.Done()
			for {
				v, err := read(ctx)
				if err != nil {
					ends[r] = err
					return
				}
				mu.Lock()
				got[r] = append(got[r], v)
				total++
				mu.Unlock()
			}
		}(r)
	}
	for i := 0; i < c.Adds; i++ {
		vkit.Yield(c.Yields[i%len(c.Yields)])
		_ = add(c.Initial + i)
	}
	want := c.Initial + c.Adds
	count := func() int { mu.Lock(); defer mu.Unlock(); return total }
	arrived := vkit.Eventually(limit, func() bool { return count() >= want })
	// let a surplus show itself before the queue is closed
	time.Sleep(time.Millisecond)
	_ = closeBox()
	done := make(chan struct{})
	go func() { wg.Wait(); close(done) }()
	select {
	case <-done:
	case <-time.After(limit):
		cancel()
		return "stuck", fmt.Sprintf("%d readers sharing one %s have not all returned %v after the queue was closed", c.Readers, c.Via, limit)
	}
	seen := map[int]int{}
	for r, vs := range got {
		for i, v := range vs {
			seen[v]++
			if i > 0 && vs[i-1] >= v {
				return "order", fmt.Sprintf("reader %d received %d after %d: positions go backwards (%v)", r, v, vs[i-1], vs)
			}
		}
	}
	var dup, missing, invented []int
	for v, n := range seen {
		if v < 0 || v >= want {
			invented = append(invented, v)
		} else if n > 1 {
			dup = append(dup, v)
		}
	}
	for v := 0; v < want; v++ {
		if seen[v] == 0 {
			missing = append(missing, v)
		}
	}
	sort.Ints(dup)
	switch {
	case len(invented) > 0:
		return "invented", fmt.Sprintf("the shared %s yielded %v, which were never added", c.Via, invented)
	case len(dup) > 0:
		return "twice", fmt.Sprintf("the shared %s yielded %d of the %d items more than once (first: %d, %d times); per reader: %v", c.Via, len(dup), want, dup[0], seen[dup[0]], got)
	case len(missing) > 0 || !arrived:
		return "skipped", fmt.Sprintf("the shared %s never yielded %v of the %d items although the readers kept asking until the queue was closed; per reader: %v", c.Via, missing, want, got)
	}
	for r, err := range ends {
		if !isEnd(err) {
			return "end", fmt.Sprintf("reader %d ended with %v after the queue was closed", r, err)
		}
	}
	return "", ""
}

func TestSharedQueueIterator(t *testing.T) {
	var rc sharedCase
	if ok, err := vkit.ReplayCase(tShared, &rc); err != nil {
		t.Fatal(err)
	} else if ok {
		for i := 0; i < 30; i++ {
			if k, why := runShared(&rc); why != "" {
				vkit.Fail(t, tShared, "C20:queue-shared/"+k, rc, "%s (repetition %d)", why, i)
			}
		}
		return
	}
	reps := vkit.Pick(3, 6)
	rapid.Check(t, func(t *rapid.T) {
		if vkit.AlreadyFailed(tShared) {
			return
		}
		c := &sharedCase{
			Via:     rapid.SampledFrom([]string{"iterator", "producer", "deque-iterator", "deque-producer"}).Draw(t, "via"),
			Readers: rapid.IntRange(2, 5).Draw(t, "readers"),
			Initial: rapid.IntRange(0, 6).Draw(t, "initial"),
			Adds:    rapid.IntRange(1, 40).Draw(t, "adds"),
			Yields:  rapid.SliceOfN(rapid.IntRange(0, 5), 1, 4).Draw(t, "yields"),
			Procs:   rapid.SampledFrom([]int{1, 2, 4, 16}).Draw(t, "gomaxprocs"),
		}
		for i := 0; i < reps; i++ {
			if k, why := runShared(c); why != "" {
				vkit.Fail(t, tShared, "C20:queue-shared/"+k, *c, "%s (repetition %d)", why, i)
			}
		}
		vkit.CaseN(tShared, vkit.Hash(*c), reps, c.Adds >= 3, []string{"via:" + c.Via, fmt.Sprintf("readers:%d", c.Readers)}, func() any { return *c })
	})
}

// ---------------------------------------------------------------------
// contents produced by every way of filling a bounded deque

// "yields the items present in container order, each exactly once", for
// contents that came about through any sequence of pushes, forced pushes
// (which evict at the other end when the deque is full) and pops, at every
// capacity including one.

const tFill = "TestDequeIteratorsOverAnyContent"

type fillCase struct {
	Capacity int      `json:"capacity"`
	Ops      []string `json:"ops"` // push-back | push-front | force-back | force-front | pop-front | pop-back
}

func runFill(c *fillCase) (string, string) {
	dq, err := pubsub.NewDeque[int](pubsub.DequeOptions{Capacity: c.Capacity})
	if err != nil {
		return "harness", err.Error()
	}
	var model []int
	limit := vkit.Limit()
	ctx, cancel := context.WithCancel(context.Background())
	defer cancel()
	for i, op := range c.Ops {
		v := i + 1
		full := len(model) >= c.Capacity
		switch op {
		case "push-back":
			if err := dq.PushBack(v); err == nil {
				model = append(model, v)
			}
		case "push-front":
			if err := dq.PushFront(v); err == nil {
				model = append([]int{v}, model...)
			}
		case "force-back":
			if full && len(model) > 0 {
				model = model[1:]
			}
			if err := dq.ForcePushBack(v); err != nil {
				return "force", fmt.Sprintf("step %d: ForcePushBack(%d) on an open deque: %v", i, v, err)
			}
			model = append(model, v)
		case "force-front":
			if full && len(model) > 0 {
				model = model[:len(model)-1]
			}
			if err := dq.ForcePushFront(v); err != nil {
				return "force", fmt.Sprintf("step %d: ForcePushFront(%d) on an open deque: %v", i, v, err)
			}
			model = append([]int{v}, model...)
		case "pop-front":
			if _, ok := dq.PopFront(); ok && len(model) > 0 {
				model = model[1:]
			}
		case "pop-back":
			if _, ok := dq.PopBack(); ok && len(model) > 0 {
				model = model[:len(model)-1]
			}
		}
		rev := make([]int, len(model))
		for j, m := range model {
			rev[len(model)-1-j] = m
		}
		for _, k := range []struct {
			name string
			p    fun.Producer[int]
			want []int
			ends bool
		}{
			{"Iterator", dq.Iterator().ReadOne, model, true},
			{"Producer", dq.Producer(), model, true},
			{"IteratorReverse", dq.IteratorReverse().ReadOne, rev, true},
			{"ProducerReverse", dq.ProducerReverse(), rev, true},
			{"ProducerBlocking", dq.ProducerBlocking(), model, false},
			{"ProducerReverseBlocking", dq.ProducerReverseBlocking(), rev, false},
		} {
			var out []int
			for n := 0; n <= len(k.want)+2; n++ {
				if !k.ends && n == len(k.want) {
					break // a blocking producer waits here for more
				}
				var v int
				var err error
				if !within(limit, func() { v, err = k.p(ctx) }) {
					return "blocks", fmt.Sprintf("after step %d (%s, capacity %d): %s blocks at position %d although the deque holds %v", i, op, c.Capacity, k.name, n, model)
				}
				if err != nil {
					break
				}
				out = append(out, v)
			}
			if fmt.Sprint(out) != fmt.Sprint(k.want) {
				return "content", fmt.Sprintf("after step %d (%s, capacity %d): %s yields %v, the deque holds %v (Len %d)", i, op, c.Capacity, k.name, out, k.want, dq.Len())
			}
		}
	}
	return "", ""
}

func within(limit time.Duration, fn func()) bool {
	done := make(chan struct{})
	go func() { fn(); close(done) }()
	select {
	case <-done:
		return true
	case <-time.After(limit):
		return false
	}
}

func TestDequeIteratorsOverAnyContent(t *testing.T) {
	var rc fillCase
	if ok, err := vkit.ReplayCase(tFill, &rc); err != nil {
		t.Fatal(err)
	} else if ok {
		if k, why := runFill(&rc); why != "" {
			vkit.Fail(t, tFill, "C20:deque-content/"+k, rc, "%s", why)
		}
		return
	}
	rapid.Check(t, func(t *rapid.T) {
		if vkit.AlreadyFailed(tFill) {
			return
		}
		c := &fillCase{
			Capacity: rapid.IntRange(1, 4).Draw(t, "capacity"),
			Ops:      rapid.SliceOfN(rapid.SampledFrom([]string{"push-back", "push-front", "force-back", "force-front", "force-back", "force-front", "pop-front", "pop-back"}), 1, 12).Draw(t, "ops"),
		}
		if k, why := runFill(c); why != "" {
			vkit.Fail(t, tFill, "C20:deque-content/"+k, *c, "%s", why)
		}
		forced := 0
		for _, o := range c.Ops {
			if o == "force-back" || o == "force-front" {
				forced++
			}
		}
		vkit.Case(tFill, vkit.Hash(*c), forced > 0 && len(c.Ops) > c.Capacity, []string{fmt.Sprintf("capacity:%d", c.Capacity)}, func() any { return *c })
	})
}

// ---------------------------------------------------------------------
// a queue iterator next to producers that are blocked on the full queue

// The iterator shares the queue's "something changed" condition variable
// with the producers parked in BlockingAdd.  Whatever the order in which
// they parked and whoever a wake-up reaches first, at quiescence every item
// that is in the queue has been yielded by an iterator that was started on
// the empty queue and keeps reading: it does not stay blocked while an item
// it has not seen is present.  (Items that were removed may or may not have
// been yielded.)

const tBlockedProducers = "TestQueueIteratorBesideBlockedProducers"

type besideCase struct {
	Capacity int      `json:"capacity"`
	Iters    int      `json:"iterators"`
	Script   []string `json:"script"` // add | remove | blocking-add
	Procs    int      `json:"gomaxprocs"`
}

func runBeside(c *besideCase) (string, string) {
	if c.Procs > 0 {
		old := runtime.GOMAXPROCS(c.Procs)
		defer runtime.GOMAXPROCS(old)
	}
	limit := vkit.Limit()
	q, err := pubsub.NewQueue[int](pubsub.QueueOptions{HardLimit: c.Capacity, SoftQuota: c.Capacity})
	if err != nil {
		return "harness", err.Error()
	}
	ctx, cancel := context.WithCancel(context.Background())
	var mu sync.Mutex
	seen := make([]map[int]bool, c.Iters)
	present := map[int]bool{}
	var iwg, pwg sync.WaitGroup
	for i := 0; i < c.Iters; i++ {
		seen[i] = map[int]bool{}
		it := q.Iterator()
		iwg.Add(1)
		go func(i int) {
			defer iwg.Done()
			for {
				v, err := it.ReadOne(ctx)
				if err != nil {
					return
				}
				mu.Lock()
				seen[i][v] = true
				mu.Unlock()
			}
		}(i)
	}
	defer func() {
		cancel()
		_ = q.Close()
		done := make(chan struct{})
		go func() { iwg.Wait(); pwg.Wait(); close(done) }()
		select {
		case <-done:
		case <-time.After(limit):
		}
	}()
	// the iterators park on the empty queue before anything else happens
	vkit.Eventually(limit, func() bool {
		return vkit.CountWhere("[sync.Cond.Wait", "sync.(*Cond).Wait", "github.com/tychoish/fun/pubsub.") >= c.Iters
	})
	caughtUp := func() (bool, string) {
		mu.Lock()
		defer mu.Unlock()
		for v := range present {
			for i := range seen {
				if !seen[i][v] {
					return false, fmt.Sprintf("iterator %d has not yielded %d, which is in the queue", i, v)
				}
			}
		}
		return true, ""
	}
	for si, op := range c.Script {
		v := si + 1
		switch op {
		case "add":
			if q.Add(v) == nil {
				mu.Lock()
				present[v] = true
				mu.Unlock()
			}
		case "remove":
			if r, ok := q.Remove(); ok {
				mu.Lock()
				delete(present, r)
				mu.Unlock()
			}
		case "blocking-add":
			pwg.Add(1)
			go func() {
				defer pwg.Done()
				// present before the call returns is fine: the item is
				// only required once it is in
				if q.BlockingAdd(ctx, v) == nil {
					mu.Lock()
					present[v] = true
					mu.Unlock()
				}
			}()
		}
		why := ""
		if !vkit.Eventually(limit, func() bool { var ok bool; ok, why = caughtUp(); return ok }) {
			return "blocked", fmt.Sprintf("at quiescence after step %d (%s, capacity %d, Len %d): %s - the iterator stays blocked although it keeps reading and nothing was closed or cancelled", si, op, c.Capacity, q.Len(), why)
		}
	}
	return "", ""
}

func TestQueueIteratorBesideBlockedProducers(t *testing.T) {
	var rc besideCase
	if ok, err := vkit.ReplayCase(tBlockedProducers, &rc); err != nil {
		t.Fatal(err)
	} else if ok {
		for i := 0; i < 30; i++ {
			if k, why := runBeside(&rc); why != "" {
				vkit.Fail(t, tBlockedProducers, "C20:queue-beside-producers/"+k, rc, "%s (repetition %d)", why, i)
			}
		}
		return
	}
	reps := vkit.Pick(2, 4)
	rapid.Check(t, func(t *rapid.T) {
		if vkit.AlreadyFailed(tBlockedProducers) {
			return
		}
		c := &besideCase{
			Capacity: rapid.IntRange(1, 3).Draw(t, "capacity"),
			Iters:    rapid.IntRange(1, 2).Draw(t, "iterators"),
			Script:   rapid.SliceOfN(rapid.SampledFrom([]string{"add", "add", "remove", "remove", "blocking-add", "blocking-add"}), 2, 14).Draw(t, "script"),
			Procs:    rapid.SampledFrom([]int{1, 2, 4, 16}).Draw(t, "gomaxprocs"),
		}
		for i := 0; i < reps; i++ {
			if k, why := runBeside(c); why != "" {
				vkit.Fail(t, tBlockedProducers, "C20:queue-beside-producers/"+k, *c, "%s (repetition %d)", why, i)
			}
		}
		blocking := 0
		for _, o := range c.Script {
			if o == "blocking-add" {
				blocking++
			}
		}
		vkit.CaseN(tBlockedProducers, vkit.Hash(*c), reps, blocking > 0 && len(c.Script) > c.Capacity, []string{fmt.Sprintf("capacity:%d", c.Capacity)}, func() any { return *c })
	})
}

// ---------------------------------------------------------------------
// a blocking deque producer and pushes at the end it is not heading for

// A blocking producer that has caught up waits for items at the end it is
// heading for.  Items pushed at the *other* end lie behind it: they are not
// for it, and they are no reason to report the end either - the deque is
// open.  The parked call returns with the next item pushed at its own end.

const tFarEnd = "TestBlockingProducerAndFarEndPushes"

type farEndCase struct {
	Reverse bool     `json:"reverse"`
	Items   int      `json:"items"`
	Far     []string `json:"far_end_pushes"` // push | force | wait
	Wrapped bool     `json:"through_iterator"`
	Procs   int      `json:"gomaxprocs"`
}

func runFarEnd(c *farEndCase) (string, string) {
	if c.Procs > 0 {
		old := runtime.GOMAXPROCS(c.Procs)
		defer runtime.GOMAXPROCS(old)
	}
	limit := vkit.Limit()
	dq := pubsub.NewUnlimitedDeque[int]()
	defer dq.Close()
	ctx, cancel := context.WithCancel(context.Background())
	defer cancel()
	near, far := dq.PushBack, map[string]func(int) error{"push": dq.PushFront, "force": dq.ForcePushFront, "wait": func(v int) error { return dq.WaitPushFront(ctx, v) }}
	read := dq.ProducerBlocking()
	if c.Reverse {
		near, far = dq.PushFront, map[string]func(int) error{"push": dq.PushBack, "force": dq.ForcePushBack, "wait": func(v int) error { return dq.WaitPushBack(ctx, v) }}
		read = dq.ProducerReverseBlocking()
	}
	if c.Wrapped {
		read = read.Iterator().ReadOne
	}
	for i := 0; i < c.Items; i++ {
		_ = near(i + 1)
	}
	for i := 0; i < c.Items; i++ {
		v, err := read(ctx)
		if err != nil || v != i+1 {
			return "content", fmt.Sprintf("read %d of the initial items: (%d, %v)", i, v, err)
		}
	}
	type res struct {
		v   int
		err error
	}
	out := make(chan res, 1)
	base := vkit.CountWhere("[sync.Cond.Wait", "sync.(*Cond).Wait", "github.com/tychoish/fun/pubsub.")
	go func() { v, err := read(ctx); out <- res{v, err} }()
	vkit.Eventually(limit, func() bool {
		return vkit.CountWhere("[sync.Cond.Wait", "sync.(*Cond).Wait", "github.com/tychoish/fun/pubsub.") > base
	})
	for i, how := range c.Far {
		if err := far[how](-(i + 1)); err != nil {
			return "harness", fmt.Sprintf("far-end push %d (%s): %v", i, how, err)
		}
	}
	_ = near(4242)
	select {
	case r := <-out:
		if r.err != nil || r.v != 4242 {
			return "spurious-end", fmt.Sprintf("a blocking producer that had caught up (%d items, reverse=%v) and was parked returned (%d, %v) after %v were pushed at the other end and 4242 at its own: the deque is open, the call is due (4242, nil)", c.Items, c.Reverse, r.v, r.err, c.Far)
		}
	case <-time.After(limit):
		return "blocked", fmt.Sprintf("a blocking producer parked at its end has not returned %v after an item was pushed there", limit)
	}
	return "", ""
}

func TestBlockingProducerAndFarEndPushes(t *testing.T) {
	var rc farEndCase
	if ok, err := vkit.ReplayCase(tFarEnd, &rc); err != nil {
		t.Fatal(err)
	} else if ok {
		for i := 0; i < 20; i++ {
			if k, why := runFarEnd(&rc); why != "" {
				vkit.Fail(t, tFarEnd, "C20:deque-far-end/"+k, rc, "%s (repetition %d)", why, i)
			}
		}
		return
	}
	rapid.Check(t, func(t *rapid.T) {
		if vkit.AlreadyFailed(tFarEnd) {
			return
		}
		c := &farEndCase{
			Reverse: rapid.Bool().Draw(t, "reverse"),
			Items:   rapid.IntRange(1, 4).Draw(t, "items"), // on an empty deque both ends are ahead of the producer
			Far:     rapid.SliceOfN(rapid.SampledFrom([]string{"push", "force", "wait"}), 0, 3).Draw(t, "far"),
			Wrapped: rapid.Bool().Draw(t, "wrapped"),
			Procs:   rapid.SampledFrom([]int{1, 4, 16}).Draw(t, "gomaxprocs"),
		}
		if k, why := runFarEnd(c); why != "" {
			vkit.Fail(t, tFarEnd, "C20:deque-far-end/"+k, *c, "%s", why)
		}
		vkit.Case(tFarEnd, vkit.Hash(*c), len(c.Far) > 0, []string{fmt.Sprintf("reverse:%v", c.Reverse)}, func() any { return *c })
	})
}
