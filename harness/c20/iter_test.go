// Package c20 decides property C20: the non-destructive Queue / Deque
// iterators see every item in order and never crash.
package c20

import (
	"context"
	"errors"
	"fmt"
	"io"
	"runtime"
	"sync"
	"sync/atomic"
	"testing"
	"time"

	"github.com/tychoish/fun"
	"github.com/tychoish/fun/pubsub"
	"github.com/tychoish/fun/verifhook"
	"pgregory.net/rapid"

	"verif/harness/vkit"
)

func TestMain(m *testing.M) { vkit.Main(m) }

const tScript = "TestIteratorScripts"

// Act is one step of a script.
type Act struct {
	Op    string `json:"op"` // step | add | remove | close | add-close | cancel
	I     int    `json:"i,omitempty"`
	End   int    `json:"end,omitempty"` // remove: 0 = the iterator's start end, 1 = the far end (deque)
	Yield int    `json:"yield,omitempty"`
}

// Case is a generated scenario: one container, one or two iterators.
type Case struct {
	Box     string   `json:"box"`     // queue | deque | deque-reverse
	Iters   []string `json:"iters"`   // per iterator: producer | iterator (queue); nonblocking | blocking | *-iterator (deque)
	Initial int      `json:"initial"` // items present before the iterators are created
	Procs   int      `json:"gomaxprocs"`
	Script  []Act    `json:"script"`
}

type result struct {
	v     int
	err   error
	panic any
}

type iter struct {
	kind      string
	read      func(context.Context) (int, error)
	ctx       context.Context
	cancel    context.CancelFunc
	seen      int // strong mode: number of items yielded
	yielded   map[int]bool
	dead      bool // returned an error before
	pending   chan result
	cancelled bool
}

type world struct {
	c        *Case
	q        *pubsub.Queue[int]
	dq       *pubsub.Deque[int]
	items    []int // every value added, in iteration order of this case
	added    map[int]bool
	removed  int
	closed   bool
	weak     bool // a removal happened: only the last sentence of the statement applies
	its      []*iter
	next     int
	limit    time.Duration
	released int
	mutated  bool
}

func (w *world) add() {
	w.next++
	v := w.next
	var err error
	switch w.c.Box {
	case "queue":
		err = w.q.Add(v)
	case "deque":
		err = w.dq.PushBack(v)
	default:
		err = w.dq.PushFront(v)
	}
	if err == nil {
		w.items = append(w.items, v)
		w.added[v] = true
	}
}

func (w *world) remove(end int) {
	var ok bool
	switch w.c.Box {
	case "queue":
		_, ok = w.q.Remove()
	case "deque":
		if end == 0 {
			_, ok = w.dq.PopFront()
		} else {
			_, ok = w.dq.PopBack()
		}
	default:
		if end == 0 {
			_, ok = w.dq.PopBack()
		} else {
			_, ok = w.dq.PopFront()
		}
	}
	if ok {
		w.removed++
	}
	w.weak = true
}

func (w *world) mkIter(kind string) *iter {
	it := &iter{kind: kind, yielded: map[int]bool{}}
	it.ctx, it.cancel = context.WithCancel(context.Background())
	var p fun.Producer[int]
	switch w.c.Box {
	case "queue":
		p = w.q.Producer()
		if kind == "iterator" {
			p = w.q.Iterator().ReadOne
		}
	case "deque":
		switch kind {
		case "nonblocking":
			p = w.dq.Producer()
		case "nonblocking-iterator":
			p = w.dq.Iterator().ReadOne
		case "blocking":
			p = w.dq.ProducerBlocking()
		default:
			p = w.dq.ProducerBlocking().Iterator().ReadOne
		}
	default:
		switch kind {
		case "nonblocking":
			p = w.dq.ProducerReverse()
		case "nonblocking-iterator":
			p = w.dq.IteratorReverse().ReadOne
		case "blocking":
			p = w.dq.ProducerReverseBlocking()
		default:
			p = w.dq.ProducerReverseBlocking().Iterator().ReadOne
		}
	}
	it.read = p
	return it
}

func (it *iter) wrapped() bool {
	return it.kind == "iterator" || it.kind == "nonblocking-iterator" || it.kind == "blocking-iterator"
}

func (it *iter) blocking() bool { return it.kind != "nonblocking" && it.kind != "nonblocking-iterator" }

func parked() int { return vkit.CountWhere("sync.(*Cond).Wait", "github.com/tychoish/fun/pubsub.") }

// expectation of the strong oracle for the next step of it
const (
	expValue = iota
	expEOF
	expCtx
	expBlock
)

func (w *world) expect(it *iter) (int, int) {
	switch {
	case it.dead:
		return expEOF, 0
	case it.seen < len(w.items):
		return expValue, w.items[it.seen]
	case w.closed:
		return expEOF, 0
	case !it.blocking():
		return expEOF, 0
	case it.cancelled:
		return expCtx, 0
	}
	return expBlock, 0
}

func isEnd(err error) bool { return errors.Is(err, io.EOF) || errors.Is(err, pubsub.ErrQueueClosed) }

// judge checks one completed step.
func (w *world) judge(i int, it *iter, r result) (string, string) {
	if r.panic != nil {
		return "panic", fmt.Sprintf("iterator %d panicked: %v", i, r.panic)
	}
	if w.weak {
		switch {
		case r.err == nil:
			if !w.added[r.v] {
				return "invented", fmt.Sprintf("iterator %d yielded %d, which was never in the container", i, r.v)
			}
			if it.yielded[r.v] {
				return "twice", fmt.Sprintf("iterator %d yielded %d twice", i, r.v)
			}
			it.yielded[r.v] = true
		case isEnd(r.err), errors.Is(r.err, context.Canceled):
			it.dead = it.dead || it.wrapped()
		default:
			return "error", fmt.Sprintf("iterator %d returned the unexpected error %v", i, r.err)
		}
		return "", ""
	}
	exp, want := w.expect(it)
	switch {
	case r.err == nil:
		if exp != expValue || r.v != want {
			if exp == expValue {
				return "order", fmt.Sprintf("iterator %d yielded %d, the next unseen item is %d (items %v, seen %d)", i, r.v, want, w.items, it.seen)
			}
			return "invented", fmt.Sprintf("iterator %d yielded %d although it has seen all %d items", i, r.v, len(w.items))
		}
		it.seen++
		it.yielded[r.v] = true
	case isEnd(r.err):
		if exp == expValue {
			return "skipped", fmt.Sprintf("iterator %d ended (%v) although item %d was not yet yielded", i, r.err, want)
		}
		if exp == expBlock || exp == expCtx {
			if exp == expCtx && it.dead {
				break
			}
			return "early-end", fmt.Sprintf("iterator %d ended (%v) although the container is open", i, r.err)
		}
		if it.wrapped() && !errors.Is(r.err, io.EOF) {
			return "eof", fmt.Sprintf("iterator %d ended with %v, want io.EOF", i, r.err)
		}
		it.dead = it.dead || it.wrapped()
	case errors.Is(r.err, context.Canceled):
		if !it.cancelled {
			return "error", fmt.Sprintf("iterator %d returned a context error but its context is live", i)
		}
		if exp == expValue {
			// a cancelled context may end the iteration early
		}
		it.dead = it.dead || it.wrapped()
	default:
		return "error", fmt.Sprintf("iterator %d returned the unexpected error %v", i, r.err)
	}
	return "", ""
}

// settle resolves pending steps whose condition now holds.
func (w *world) settle(after string) (string, string) {
	for i, it := range w.its {
		if it.pending == nil {
			continue
		}
		must := false
		if w.weak {
			must = w.closed || it.cancelled
		} else {
			exp, _ := w.expect(it)
			must = exp != expBlock
		}
		if !must {
			select {
			case r := <-it.pending:
				// it returned although the strong oracle says it
				// blocks: judge the value (weak mode: anything legal)
				it.pending = nil
				if k, why := w.judge(i, it, r); why != "" {
					return k, why + " (after " + after + ")"
				}
			default:
			}
			continue
		}
		select {
		case r := <-it.pending:
			it.pending = nil
			w.released++
			if k, why := w.judge(i, it, r); why != "" {
				return k, why + " (after " + after + ")"
			}
		case <-time.After(w.limit):
			reason := "an unseen item is present"
			if w.closed {
				reason = "the container is closed"
			} else if it.cancelled {
				reason = "its context is cancelled"
			}
			return "blocked", fmt.Sprintf("iterator %d (%s) is still blocked %v after %s although %s (items %v, seen %d)", i, it.kind, w.limit, after, reason, w.items, it.seen)
		}
	}
	return "", ""
}

func (w *world) step(i int) (string, string) {
	it := w.its[i]
	if it.pending != nil {
		return "", "" // still blocked in the previous step
	}
	base := parked()
	ch := make(chan result, 1)
	go func() {
		defer func() {
			if r := recover(); r != nil {
				ch <- result{panic: r}
			}
		}()
		v, err := it.read(it.ctx)
		ch <- result{v: v, err: err}
	}()
	exp := expBlock
	if !w.weak {
		exp, _ = w.expect(it)
	}
	if exp != expBlock {
		select {
		case r := <-ch:
			return w.judge(i, it, r)
		case <-time.After(w.limit):
			it.pending = ch
			_, want := w.expect(it)
			return "blocked", fmt.Sprintf("iterator %d (%s) blocks for %v although it should return at once (unseen item %d / closed=%v; items %v, seen %d)", i, it.kind, w.limit, want, w.closed, w.items, it.seen)
		}
	}
	// it may block: wait until it has parked or returned
	var r result
	returned := false
	vkit.Eventually(w.limit, func() bool {
		select {
		case r = <-ch:
			returned = true
			return true
		default:
		}
		return parked() > base
	})
	if returned {
		return w.judge(i, it, r)
	}
	it.pending = ch
	return "", ""
}

func runCase(c *Case) (key, why string, w *world) {
	if c.Procs > 0 {
		old := runtime.GOMAXPROCS(c.Procs)
		defer runtime.GOMAXPROCS(old)
	}
	w = &world{c: c, added: map[int]bool{}, limit: vkit.Limit()}
	if c.Box == "queue" {
		w.q = pubsub.NewUnlimitedQueue[int]()
	} else {
		w.dq = pubsub.NewUnlimitedDeque[int]()
	}
	for i := 0; i < c.Initial; i++ {
		w.add()
	}
	for _, k := range c.Iters {
		w.its = append(w.its, w.mkIter(k))
	}
	defer func() {
		for _, it := range w.its {
			it.cancel()
		}
		if w.q != nil {
			_ = w.q.Close()
		} else {
			_ = w.dq.Close()
		}
		for _, it := range w.its {
			if it.pending != nil {
				select {
				case <-it.pending:
				case <-time.After(w.limit):
				}
			}
		}
	}()
	for si, a := range c.Script {
		vkit.Yield(a.Yield)
		desc := fmt.Sprintf("step %d (%s)", si, a.Op)
		var k, why string
		switch a.Op {
		case "step":
			k, why = w.step(a.I % len(w.its))
		case "add":
			if !w.closed {
				w.add()
				w.mutated = true
			}
		case "add-close":
			// an item is added and the container closed at once, before a
			// parked iterator has had the chance to react to the item: it
			// still has to yield it ("without skipping any") and only then
			// finish with io.EOF
			if !w.closed {
				w.add()
				w.mutated = true
				if w.q != nil {
					_ = w.q.Close()
				} else {
					_ = w.dq.Close()
				}
				w.closed = true
			}
		case "remove":
			w.remove(a.End)
			w.mutated = true
		case "close":
			if w.q != nil {
				_ = w.q.Close()
			} else {
				_ = w.dq.Close()
			}
			w.closed = true
		case "cancel":
			it := w.its[a.I%len(w.its)]
			it.cancelled = true
			it.cancel()
		}
		if why == "" {
			k, why = w.settle(desc)
		}
		if why != "" {
			return k, why, w
		}
	}
	// the end: Close releases everything that is still blocked
	if w.q != nil {
		_ = w.q.Close()
	} else {
		_ = w.dq.Close()
	}
	w.closed = true
	if k, why := w.settle("the final Close"); why != "" {
		return k, why, w
	}
	return "", "", w
}

// addsAtIterationEnd: in the reverse case the far end is the front.
func genCase(t *rapid.T) *Case {
	c := &Case{
		Box:     rapid.SampledFrom([]string{"queue", "queue", "deque", "deque-reverse"}).Draw(t, "box"),
		Initial: rapid.IntRange(0, 4).Draw(t, "initial"),
		Procs:   rapid.SampledFrom([]int{1, 2, 4, 16}).Draw(t, "gomaxprocs"),
	}
	kinds := []string{"producer", "iterator"}
	if c.Box != "queue" {
		kinds = []string{"nonblocking", "nonblocking-iterator", "blocking", "blocking", "blocking-iterator"}
	}
	n := rapid.IntRange(1, 2).Draw(t, "iterators")
	for i := 0; i < n; i++ {
		c.Iters = append(c.Iters, rapid.SampledFrom(kinds).Draw(t, "iter"))
	}
	removals := rapid.IntRange(0, 2).Draw(t, "withRemovals") == 0
	steps := rapid.IntRange(1, 14).Draw(t, "steps")
	for i := 0; i < steps; i++ {
		a := Act{Yield: rapid.IntRange(0, 3).Draw(t, "yield")}
		switch k := rapid.IntRange(0, 11).Draw(t, "act"); {
		case k <= 4:
			a.Op, a.I = "step", rapid.IntRange(0, n-1).Draw(t, "i")
		case k <= 7:
			a.Op = "add"
		case k == 8 && removals, k == 9 && removals:
			a.Op, a.End = "remove", rapid.IntRange(0, 1).Draw(t, "end")
		case k == 10:
			a.Op, a.I = "cancel", rapid.IntRange(0, n-1).Draw(t, "i")
		case k == 11:
			a.Op = rapid.SampledFrom([]string{"close", "close", "add-close"}).Draw(t, "closeKind")
		default:
			a.Op = "add"
		}
		c.Script = append(c.Script, a)
	}
	return c
}

func TestIteratorScripts(t *testing.T) {
	var rc Case
	if ok, err := vkit.ReplayCase(tScript, &rc); err != nil {
		t.Fatal(err)
	} else if ok {
		for i := 0; i < 20; i++ {
			if k, why, _ := runCase(&rc); why != "" {
				vkit.Fail(t, tScript, "C20:"+rc.Box+"/"+k, rc, "%s (repetition %d)", why, i)
			}
		}
		return
	}
	rapid.Check(t, func(t *rapid.T) {
		if vkit.AlreadyFailed(tScript) {
			return
		}
		c := genCase(t)
		k, why, w := runCase(c)
		if why != "" {
			vkit.Fail(t, tScript, "C20:"+c.Box+"/"+k, *c, "%s", why)
		}
		cls := []string{"box:" + c.Box, fmt.Sprintf("weak-mode:%v", w.weak)}
		if w.released > 0 {
			cls = append(cls, "blocked-step-released")
		}
		for _, k := range c.Iters {
			cls = append(cls, "iter:"+k)
		}
		vkit.Case(tScript, vkit.Hash(*c), w.released > 0 || w.mutated, cls, func() any { return *c })
	})
}

// ---------------------------------------------------------------------
// the window of the queue iterator: an operation lands between its look at
// the tail and its decision to wait

const tWindow = "TestQueueIteratorWindow"

type windowCase struct {
	Initial int      `json:"initial"` // items present (all of them seen before the window)
	Ops     []string `json:"ops"`     // executed inside the window: add | remove | close
	After   []string `json:"after"`   // executed once the iterator is parked (or has returned)
	Procs   int      `json:"gomaxprocs"`
	Via     string   `json:"via"` // producer | iterator
}

func runWindow(c *windowCase) (string, string, bool) {
	if c.Procs > 0 {
		old := runtime.GOMAXPROCS(c.Procs)
		defer runtime.GOMAXPROCS(old)
	}
	limit := vkit.Limit()
	q := pubsub.NewUnlimitedQueue[int]()
	next := 0
	var items, present []int
	removed := map[int]bool{}
	closed := false
	do := func(op string) {
		switch op {
		case "add":
			next++
			if q.Add(next) == nil {
				items = append(items, next)
				present = append(present, next)
			}
		case "remove":
			if v, ok := q.Remove(); ok {
				removed[v] = true
				present = present[1:]
			}
		case "close":
			_ = q.Close()
			closed = true
		}
	}
	for i := 0; i < c.Initial; i++ {
		do("add")
	}
	read := q.Producer()
	if c.Via == "iterator" {
		read = q.Iterator().ReadOne
	}
	ctx, cancel := context.WithCancel(context.Background())
	defer cancel()
	for i := 0; i < c.Initial; i++ {
		v, err := read(ctx)
		if err != nil || v != items[i] {
			return "order", fmt.Sprintf("initial read %d: got %d, %v; want %d", i, v, err, items[i]), false
		}
	}
	seen := c.Initial
	var fired atomic.Bool
	verifhook.Set("pubsub.Queue.Producer.unlocked", func() {
		if fired.CompareAndSwap(false, true) {
			for _, op := range c.Ops {
				do(op)
			}
		}
	})
	defer verifhook.Clear()
	base := parked()
	ch := make(chan result, 1)
	go func() {
		defer func() {
			if r := recover(); r != nil {
				ch <- result{panic: r}
			}
		}()
		v, err := read(ctx)
		ch <- result{v: v, err: err}
	}()
	var r result
	returned := false
	vkit.Eventually(limit, func() bool {
		select {
		case r = <-ch:
			returned = true
			return true
		default:
		}
		return parked() > base
	})
	verifhook.Clear()
	inWindow := fired.Load()
	if !inWindow {
		// the implementation has no such window (any more): the
		// operations simply happen while the iterator is parked
		for _, op := range c.Ops {
			do(op)
		}
	}
	for _, op := range c.After {
		do(op)
	}
	// an item the iterator has not yielded is still in the queue
	unseen := false
	for _, v := range present {
		unseen = unseen || (seen == 0 || v > items[seen-1])
	}
	if !returned && !unseen && !closed {
		// nothing to see: release it and stop
		cancel()
		select {
		case r = <-ch:
		case <-time.After(limit):
			return "blocked", "the iterator does not return after its context was cancelled", inWindow
		}
		if r.panic != nil {
			return "panic", fmt.Sprintf("the iterator panicked: %v", r.panic), inWindow
		}
		return "", "", inWindow
	}
	if !returned {
		select {
		case r = <-ch:
		case <-time.After(limit):
			return "blocked", fmt.Sprintf("the iterator is still blocked %v after %v happened in its unlocked window (then %v): items %v, it has seen %d, closed=%v", limit, c.Ops, c.After, items, seen, closed), inWindow
		}
	}
	if r.panic != nil {
		return "panic", fmt.Sprintf("the iterator panicked after %v in its window (then %v): %v", c.Ops, c.After, r.panic), inWindow
	}
	anyRemoved := len(removed) > 0
	switch {
	case r.err == nil:
		ok := false
		for _, v := range items[seen:] {
			ok = ok || v == r.v
		}
		if !ok {
			return "invented", fmt.Sprintf("the iterator yielded %d; unseen items were %v", r.v, items[seen:]), inWindow
		}
		if !anyRemoved && r.v != items[seen] {
			return "order", fmt.Sprintf("the iterator yielded %d, the next unseen item is %d", r.v, items[seen]), inWindow
		}
	case isEnd(r.err):
		if !closed {
			return "early-end", fmt.Sprintf("the iterator ended (%v) on an open queue", r.err), inWindow
		}
		if len(items) > seen && !anyRemoved {
			return "skipped", fmt.Sprintf("the iterator ended although %v had not been yielded", items[seen:]), inWindow
		}
	default:
		return "error", fmt.Sprintf("unexpected error %v", r.err), inWindow
	}
	return "", "", inWindow
}

func TestQueueIteratorWindow(t *testing.T) {
	var rc windowCase
	if ok, err := vkit.ReplayCase(tWindow, &rc); err != nil {
		t.Fatal(err)
	} else if ok {
		if k, why, _ := runWindow(&rc); why != "" {
			vkit.Fail(t, tWindow, "C20:window/"+k, rc, "%s", why)
		}
		return
	}
	rapid.Check(t, func(t *rapid.T) {
		if vkit.AlreadyFailed(tWindow) {
			return
		}
		ops := rapid.SampledFrom([]string{"add", "add", "remove", "close"})
		c := &windowCase{
			Initial: rapid.IntRange(0, 3).Draw(t, "initial"),
			Ops:     rapid.SliceOfN(ops, 1, 4).Draw(t, "ops"),
			After:   rapid.SliceOfN(ops, 0, 3).Draw(t, "after"),
			Procs:   rapid.SampledFrom([]int{1, 2, 16}).Draw(t, "gomaxprocs"),
			Via:     rapid.SampledFrom([]string{"producer", "iterator"}).Draw(t, "via"),
		}
		k, why, inWindow := runWindow(c)
		if why != "" {
			vkit.Fail(t, tWindow, "C20:window/"+k, *c, "%s", why)
		}
		vkit.Case(tWindow, vkit.Hash(*c), true, []string{fmt.Sprintf("hook-fired:%v", inWindow), "first-op:" + c.Ops[0]}, func() any { return *c })
	})
}

// ---------------------------------------------------------------------
// hook variant 2: the context of a blocked iterator step is cancelled
// between the step's look at the container and its parking on the
// condition variable - "a blocked step returns ... its context error after
// cancel" for the cancellation that lands in that window.

const tIterPark = "TestIteratorCancelInParkWindow"

type iterParkCase struct {
	Kind    string `json:"kind"`    // queue | deque-forward | deque-reverse
	Initial int    `json:"initial"` // items present (all consumed before the step that parks)
	Others  int    `json:"others"`  // other iterators already parked at the tail
	Procs   int    `json:"gomaxprocs"`
}

func runIterPark(c *iterParkCase) string {
	if c.Procs > 0 {
		old := runtime.GOMAXPROCS(c.Procs)
		defer runtime.GOMAXPROCS(old)
	}
	limit := vkit.Limit()
	var mk func() *fun.Iterator[int]
	var closeBox func()
	switch c.Kind {
	case "queue":
		q := pubsub.NewUnlimitedQueue[int]()
		for i := 0; i < c.Initial; i++ {
			_ = q.Add(i + 1)
		}
		mk, closeBox = q.Iterator, func() { _ = q.Close() }
	default:
		dq := pubsub.NewUnlimitedDeque[int]()
		for i := 0; i < c.Initial; i++ {
			_ = dq.PushBack(i + 1)
		}
		closeBox = func() { _ = dq.Close() }
		if c.Kind == "deque-forward" {
			mk = func() *fun.Iterator[int] { return dq.ProducerBlocking().Iterator() }
		} else {
			mk = func() *fun.Iterator[int] { return dq.ProducerReverseBlocking().Iterator() }
		}
	}
	base := parked()
	octx, ocancel := context.WithCancel(context.Background())
	var owg sync.WaitGroup
	for i := 0; i < c.Others; i++ {
		it := mk()
		owg.Add(1)
		go func() {
			defer owg.Done()
			for {
				if _, err := it.ReadOne(octx); err != nil {
					return
				}
			}
		}()
	}
	vkit.Eventually(limit, func() bool { return parked()-base >= c.Others })

	it := mk()
	ctx, cancel := context.WithCancel(context.Background())
	for i := 0; i < c.Initial; i++ {
		if _, err := it.ReadOne(ctx); err != nil {
			cancel()
			ocancel()
			closeBox()
			owg.Wait()
			return fmt.Sprintf("step %d of %d over the initial items returned %v", i, c.Initial, err)
		}
	}
	var armed atomic.Bool
	armed.Store(true)
	verifhook.Set("pubsub.wait.before-cond-wait", func() {
		// runs on the iterator's goroutine with the container's mutex held
		if armed.CompareAndSwap(true, false) {
			cancel()
			for i := 0; i < 50; i++ {
				runtime.Gosched()
			}
			time.Sleep(time.Millisecond)
		}
	})
	done := make(chan error, 1)
	go func() { _, err := it.ReadOne(ctx); done <- err }()
	var res string
	select {
	case err := <-done:
		if !errors.Is(err, context.Canceled) {
			res = fmt.Sprintf("the blocked step returned %v, want its context error", err)
		}
	case <-time.After(limit):
		res = fmt.Sprintf("the iterator step is still blocked %v after its context was cancelled (the cancellation fell between its look at the container and cond.Wait)", limit)
	}
	verifhook.Clear()
	cancel()
	ocancel()
	closeBox()
	wait := make(chan struct{})
	go func() { owg.Wait(); close(wait) }()
	select {
	case <-wait:
	case <-time.After(limit):
	}
	if armed.Load() && res == "" {
		res = "the yield point pubsub.wait.before-cond-wait was never reached (is the harness built with -tags verif?)"
	}
	return res
}

func TestIteratorCancelInParkWindow(t *testing.T) {
	var rc iterParkCase
	if ok, err := vkit.ReplayCase(tIterPark, &rc); err != nil {
		t.Fatal(err)
	} else if ok {
		if why := runIterPark(&rc); why != "" {
			vkit.Fail(t, tIterPark, "C20:park-window/"+rc.Kind, rc, "%s", why)
		}
		return
	}
	rapid.Check(t, func(t *rapid.T) {
		if vkit.AlreadyFailed(tIterPark) {
			return
		}
		c := &iterParkCase{
			Kind:    rapid.SampledFrom([]string{"queue", "deque-forward", "deque-reverse"}).Draw(t, "kind"),
			Initial: rapid.IntRange(0, 3).Draw(t, "initial"),
			Others:  rapid.IntRange(0, 2).Draw(t, "others"),
			Procs:   rapid.SampledFrom([]int{1, 2, 16}).Draw(t, "gomaxprocs"),
		}
		if why := runIterPark(c); why != "" {
			vkit.Fail(t, tIterPark, "C20:park-window/"+c.Kind, *c, "%s", why)
		}
		vkit.Case(tIterPark, vkit.Hash(*c), true, []string{"kind:" + c.Kind}, func() any { return *c })
	})
}
