package vkit

import (
	"sync"
	"sync/atomic"
	"time"

	"github.com/anishathalye/porcupine"
)

// Hist records a concurrent history: every call is stamped at invocation
// and at return from one atomic counter, so real-time order between
// non-overlapping calls is preserved exactly.
type Hist struct {
	clock atomic.Int64
	mu    sync.Mutex
	ops   []porcupine.Operation
}

// Call runs fn as one operation of client; fn returns the output.
func (h *Hist) Call(client int, input any, fn func() any) any {
	call := h.clock.Add(1)
	out := fn()
	ret := h.clock.Add(1)
	h.mu.Lock()
	h.ops = append(h.ops, porcupine.Operation{ClientId: client, Input: input, Call: call, Output: out, Return: ret})
	h.mu.Unlock()
	return out
}

// Now returns a stamp of the history clock (for harness events).
func (h *Hist) Now() int64 { return h.clock.Add(1) }

// Ops returns the recorded operations.
func (h *Hist) Ops() []porcupine.Operation {
	h.mu.Lock()
	defer h.mu.Unlock()
	return append([]porcupine.Operation{}, h.ops...)
}

// Overlaps counts pairs of operations of different clients whose
// intervals overlap.
func Overlaps(ops []porcupine.Operation) int {
	n := 0
	for i := range ops {
		for j := i + 1; j < len(ops); j++ {
			if ops[i].ClientId != ops[j].ClientId && ops[i].Call < ops[j].Return && ops[j].Call < ops[i].Return {
				n++
			}
		}
	}
	return n
}

// Linearizable checks the history against the model; unknown (the
// checker's own time budget ran out) is reported separately and is never
// a violation.
func Linearizable(model porcupine.Model, ops []porcupine.Operation) (ok, unknown bool) {
	switch porcupine.CheckOperationsTimeout(model, ops, 20*time.Second) {
	case porcupine.Ok:
		return true, false
	case porcupine.Unknown:
		return true, true
	}
	return false, false
}
