package vkit

import (
	"runtime"
	"strings"
	"time"
)

// Goroutines returns the stack blocks of all goroutines.
func Goroutines() []string {
	buf := make([]byte, 1<<20)
	for {
		n := runtime.Stack(buf, true)
		if n < len(buf) {
			buf = buf[:n]
			break
		}
		buf = make([]byte, 2*len(buf))
	}
	return strings.Split(strings.TrimSpace(string(buf)), "\n\n")
}

// FunGoroutines returns the goroutines that the library started on its own
// behalf: those whose "created by" frame is in github.com/tychoish/fun (any
// package).  A library goroutine that is currently inside a callback of the
// harness is included - it only ends if the library lets it end.
func FunGoroutines() []string {
	var out []string
	for _, g := range Goroutines() {
		if i := strings.LastIndex(g, "created by "); i >= 0 && strings.HasPrefix(g[i+len("created by "):], "github.com/tychoish/fun") {
			out = append(out, g)
		}
	}
	return out
}

// CountWhere counts goroutines whose stack contains every given substring.
func CountWhere(subs ...string) int {
	n := 0
outer:
	for _, g := range Goroutines() {
		for _, s := range subs {
			if !strings.Contains(g, s) {
				continue outer
			}
		}
		n++
	}
	return n
}

// Eventually polls cond until it is true or the limit expires (§3.3 of
// DESIGN.md: passing cases leave the loop in microseconds, the limit only
// bounds how long a failing case takes).
func Eventually(limit time.Duration, cond func() bool) bool {
	deadline := time.Now().Add(limit)
	for i := 0; ; i++ {
		if cond() {
			return true
		}
		if time.Now().After(deadline) {
			return false
		}
		switch {
		case i < 50:
			runtime.Gosched()
		case i < 200:
			time.Sleep(50 * time.Microsecond)
		default:
			time.Sleep(time.Millisecond)
		}
	}
}

// NoFunGoroutines waits until no library goroutine is left; it returns the
// stacks that remained.
func NoFunGoroutines(limit time.Duration) []string {
	var left []string
	Eventually(limit, func() bool { left = FunGoroutines(); return len(left) == 0 })
	return left
}

// Limit is the quiescence limit of the tier.
func Limit() time.Duration { return Pick(3*time.Second, 10*time.Second) }

// Yield applies a generated yield pattern entry: 0 = nothing, 1..3 =
// that many Gosched calls, 4 = a short sleep.
func Yield(n int) {
	switch {
	case n <= 0:
	case n < 4:
		for i := 0; i < n; i++ {
			runtime.Gosched()
		}
	default:
		time.Sleep(time.Duration(n-3) * 20 * time.Microsecond)
	}
}

// Bounded runs fn on its own goroutine and waits for it for at most limit.
// It is used around whole cases whose individual steps are non-blocking
// library calls: when such a case does not end, a call is stuck inside the
// library (deadlock or livelock with a mutex held).  stuck holds the stacks
// of the goroutines that are inside a library frame at that moment; fn's
// goroutine is abandoned.
func Bounded(limit time.Duration, fn func()) (finished bool, stuck string) {
	done := make(chan struct{})
	go func() { defer close(done); fn() }()
	select {
	case <-done:
		return true, ""
	case <-time.After(limit):
	}
	var b strings.Builder
	for _, g := range Goroutines() {
		if strings.Contains(g, "github.com/tychoish/fun") {
			b.WriteString(g)
			b.WriteString("\n\n")
		}
	}
	st := b.String()
	if len(st) > 8000 {
		st = st[:8000]
	}
	return false, st
}
