// Package vkit is the shared kit of the verification harness: a
// statistics/evidence recorder, failing-case writer, watchdog,
// known-findings lookup and goroutine inspector.
//
// Every test binary of the harness is run by /verif/check, which passes
//
//	VERIF_OUT    directory for this process' output (stats, case files)
//	VERIF_TIER   quick | thorough
//	VERIF_KNOWN  comma separated keys of *open* known findings of the property
//	VERIF_REPLAY path of a JSON case to re-run (TestReplay)
//
// Run without the driver (plain `go test`) everything still works and the
// output goes to a temporary directory.
package vkit

import (
	"encoding/json"
	"fmt"
	"hash/fnv"
	"os"
	"path/filepath"
	"runtime"
	"sort"
	"strconv"
	"strings"
	"sync"
	"testing"
	"time"

	_ "github.com/anishathalye/porcupine"
	_ "github.com/tychoish/fun"
	_ "pgregory.net/rapid"
)

// TB is the common subset of *testing.T and *rapid.T the kit needs.
type TB interface {
	Helper()
	Fatalf(format string, args ...any)
	Logf(format string, args ...any)
}

const (
	firstSamples     = 3
	reservoirSamples = 5
	maxHashes        = 4_000_000
)

// TestStats is what one Test function of one process contributes.
type TestStats struct {
	Evaluations   int64            `json:"evaluations"`
	Executions    int64            `json:"executions"`
	NonTrivial    int64            `json:"nontrivial"`
	Hashes        []uint64         `json:"hashes"`
	Classes       map[string]int64 `json:"classes"`
	ExcludedKnown map[string]int64 `json:"excluded_known"`
	Samples       []any            `json:"samples"`

	hset  map[uint64]struct{}
	first []any
	res   []any
	seen  int64
	rng   uint64
}

var (
	mu    sync.Mutex
	stats = map[string]*TestStats{}
	outd  string
	known map[string]bool
	once  sync.Once
)

func setup() {
	once.Do(func() {
		outd = os.Getenv("VERIF_OUT")
		if outd == "" {
			d, err := os.MkdirTemp("", "vkit-out-")
			if err != nil {
				panic(err)
			}
			outd = d
		}
		_ = os.MkdirAll(outd, 0o755)
		known = map[string]bool{}
		for _, k := range strings.Split(os.Getenv("VERIF_KNOWN"), ",") {
			if k = strings.TrimSpace(k); k != "" {
				known[k] = true
			}
		}
	})
}

// OutDir is the directory this process writes to.
func OutDir() string { setup(); return outd }

// Tier reports whether the thorough tier is running.
func Thorough() bool { return os.Getenv("VERIF_TIER") == "thorough" }

// Pick returns q in the quick tier and th in the thorough tier.
func Pick[T any](q, th T) T {
	if Thorough() {
		return th
	}
	return q
}

// Known reports whether key names an open known finding.  Generators use
// it to exclude the scenario class by construction; when the entry is
// removed from the known-findings file the class is generated again and
// the defect is reported as a violation.
func Known(key string) bool { setup(); return known[key] }

// Excluded counts a case (or a step) that was not generated because it
// falls in the class of an open known finding.
func Excluded(test, key string) {
	s := get(test)
	mu.Lock()
	s.ExcludedKnown[key]++
	mu.Unlock()
}

func get(test string) *TestStats {
	setup()
	mu.Lock()
	defer mu.Unlock()
	s, ok := stats[test]
	if !ok {
		s = &TestStats{Classes: map[string]int64{}, ExcludedKnown: map[string]int64{}, hset: map[uint64]struct{}{}, rng: 0x9e3779b97f4a7c15}
		stats[test] = s
	}
	return s
}

// Hash gives the case hash used for distinctness.
func Hash(parts ...any) uint64 {
	h := fnv.New64a()
	for _, p := range parts {
		fmt.Fprintf(h, "%v\x00", p)
	}
	return h.Sum64()
}

// Case records one executed case.  hash identifies the generated case,
// nontrivial says whether it satisfies the property's non-trivial rule,
// classes are free labels counted in a histogram, sample (may be nil) is
// called only when the case is kept as a sample.
func Case(test string, hash uint64, nontrivial bool, classes []string, sample func() any) {
	CaseN(test, hash, 1, nontrivial, classes, sample)
}

// CaseN is Case for a case that was executed n times (concurrent
// repetitions of one generated program).
func CaseN(test string, hash uint64, n int, nontrivial bool, classes []string, sample func() any) {
	s := get(test)
	mu.Lock()
	defer mu.Unlock()
	s.Evaluations++
	s.Executions += int64(n)
	for _, c := range classes {
		s.Classes[c]++
	}
	if !nontrivial {
		return
	}
	s.NonTrivial++
	if _, dup := s.hset[hash]; dup {
		return
	}
	if len(s.hset) < maxHashes {
		s.hset[hash] = struct{}{}
	}
	if sample == nil {
		return
	}
	s.seen++
	switch {
	case len(s.first) < firstSamples:
		s.first = append(s.first, sample())
	case len(s.res) < reservoirSamples:
		s.res = append(s.res, sample())
	default:
		// xorshift; which cases are shown as samples does not
		// influence any verdict.
		s.rng ^= s.rng << 13
		s.rng ^= s.rng >> 7
		s.rng ^= s.rng << 17
		if j := s.rng % uint64(s.seen); j < reservoirSamples {
			s.res[j] = sample()
		}
	}
}

// Class bumps a histogram label outside of Case.
func Class(test, label string) {
	s := get(test)
	mu.Lock()
	s.Classes[label]++
	mu.Unlock()
}

// Flush writes the statistics of this process; call it from TestMain
// after m.Run.
func Flush() {
	setup()
	mu.Lock()
	defer mu.Unlock()
	for _, s := range stats {
		s.Hashes = s.Hashes[:0]
		for h := range s.hset {
			s.Hashes = append(s.Hashes, h)
		}
		sort.Slice(s.Hashes, func(i, j int) bool { return s.Hashes[i] < s.Hashes[j] })
		s.Samples = append(append([]any{}, s.first...), s.res...)
	}
	b, err := json.Marshal(stats)
	if err != nil {
		fmt.Fprintln(os.Stderr, "vkit: cannot encode stats:", err)
		return
	}
	// one file per process: the workers of a native fuzzing campaign share
	// the output directory with their coordinator
	if err := os.WriteFile(filepath.Join(outd, fmt.Sprintf("stats.%d.json", os.Getpid())), b, 0o644); err != nil {
		fmt.Fprintln(os.Stderr, "vkit: cannot write stats:", err)
	}
}

// Main is the TestMain body shared by all packages.
func Main(m *testing.M) {
	setup()
	go memoryBackstop()
	code := m.Run()
	Flush()
	os.Exit(code)
}

// FailCase is the self-describing replay file written when a property
// fails.
type FailCase struct {
	Test   string `json:"test"`
	Key    string `json:"key"`
	Reason string `json:"reason"`
	Case   any    `json:"case"`
}

// SaveCase writes the failing case (overwriting the previous one of the
// same test, so that after shrinking the file holds the minimal case); the
// driver collects <test>.case.json from the output directory.
func SaveCase(test, key, reason string, c any) string {
	setup()
	mu.Lock()
	failedTests[test] = true
	mu.Unlock()
	p := filepath.Join(outd, sanitize(test)+".case.json")
	b, err := json.MarshalIndent(FailCase{Test: test, Key: key, Reason: reason, Case: c}, "", " ")
	if err != nil {
		b, _ = json.Marshal(FailCase{Test: test, Key: key, Reason: reason, Case: fmt.Sprintf("%+v", c)})
	}
	_ = os.WriteFile(p, b, 0o644)
	return p
}

var failedTests = map[string]bool{}

// AlreadyFailed reports whether a case of the test has failed in this
// process.  Properties whose failing cases take seconds (liveness checks
// that wait for the quiescence limit) return at once when it is true, so
// that rapid does not spend minutes on shrinking: every candidate passes,
// and the case saved at the first failure stays the replay file.
func AlreadyFailed(test string) bool {
	mu.Lock()
	defer mu.Unlock()
	return failedTests[test]
}

// Fail saves the case and fails the test.
func Fail(t TB, test, key string, c any, format string, args ...any) {
	t.Helper()
	reason := fmt.Sprintf(format, args...)
	SaveCase(test, key, reason, c)
	t.Fatalf("[%s] %s", key, reason)
}

func sanitize(s string) string {
	return strings.Map(func(r rune) rune {
		switch {
		case r >= 'a' && r <= 'z', r >= 'A' && r <= 'Z', r >= '0' && r <= '9', r == '-', r == '_', r == '.':
			return r
		}
		return '_'
	}, s)
}

// ReplayCase loads the case named by VERIF_REPLAY into out; ok is false
// when no replay was requested or the file is for another test.
func ReplayCase(test string, out any) (ok bool, err error) {
	p := os.Getenv("VERIF_REPLAY")
	if p == "" {
		return false, nil
	}
	b, err := os.ReadFile(p)
	if err != nil {
		return false, err
	}
	var fc struct {
		Test string          `json:"test"`
		Case json.RawMessage `json:"case"`
	}
	if err := json.Unmarshal(b, &fc); err != nil {
		return false, err
	}
	if fc.Test != test {
		return false, nil
	}
	return true, json.Unmarshal(fc.Case, out)
}

// Watch runs fn on the calling goroutine; if it has not returned after
// limit the case is saved as a non-termination failure and the process
// exits with status 3 (a sequential, deterministic step of the library
// that runs for a minute does not terminate; the driver reports the saved
// case as the violation).  Only used around sequential code, where no
// other goroutine can be the reason for the delay.
func Watch(test, key string, limit time.Duration, c func() any, fn func()) {
	done := make(chan struct{})
	go func() {
		deadline := time.After(limit)
		tick := time.NewTicker(100 * time.Millisecond)
		defer tick.Stop()
		for {
			select {
			case <-done:
				return
			case <-deadline:
				SaveCase(test, key, fmt.Sprintf("step did not return within %s", limit), c())
				fmt.Printf("VKIT-HANG test=%s key=%s\n", test, key)
				Flush()
				os.Exit(3)
			case <-tick.C:
				// a step that does not terminate often allocates without
				// bound (a walk over a corrupted ring appended to a slice):
				// stop before the machine runs out of memory
				if heap := heapInUse(); heap > MemLimit() {
					SaveCase(test, key, fmt.Sprintf("step has not returned and the heap grew to %d MiB (limit %d MiB): a non-terminating, allocating loop", heap>>20, MemLimit()>>20), c())
					fmt.Printf("VKIT-HANG test=%s key=%s\n", test, key)
					Flush()
					os.Exit(3)
				}
			}
		}
	}()
	defer close(done)
	fn()
}

func heapInUse() uint64 {
	var ms runtime.MemStats
	runtime.ReadMemStats(&ms)
	return ms.HeapAlloc
}

// MemLimit is the heap size (bytes) beyond which a test process gives up:
// VERIF_MEMLIMIT_MB, default 4096.
func MemLimit() uint64 {
	if v, err := strconv.Atoi(os.Getenv("VERIF_MEMLIMIT_MB")); err == nil && v > 0 {
		return uint64(v) << 20
	}
	return 4096 << 20
}

// memoryBackstop ends the process (inconclusive for the driver unless a
// Watch is active and reports the case first) when the heap exceeds twice
// the limit: the sandbox has no memory limit of its own.
func memoryBackstop() {
	for {
		time.Sleep(250 * time.Millisecond)
		if heap := heapInUse(); heap > 2*MemLimit() {
			fmt.Printf("VKIT-MEMORY heap %d MiB exceeds twice the limit of %d MiB; giving up\n", heap>>20, MemLimit()>>20)
			buf := make([]byte, 1<<16)
			fmt.Printf("%s\n", buf[:runtime.Stack(buf, true)])
			Flush()
			os.Exit(5)
		}
	}
}

// Guard runs fn; a panic that is not rapid's own control flow (raised by
// Fatalf / Skip inside a property) is reported as a failure of the case
// under key+"/panic": a panic that escapes the library is a violation of
// every property checked here.
func Guard(t TB, test, key string, c func() any, fn func()) {
	defer func() {
		r := recover()
		if r == nil {
			return
		}
		switch fmt.Sprintf("%T", r) {
		case "rapid.stopTest", "rapid.invalidData":
			panic(r)
		}
		buf := make([]byte, 8192)
		buf = buf[:runtime.Stack(buf, false)]
		Fail(t, test, key+"/panic", c(), "panic: %v\n%s", r, buf)
	}()
	fn()
}
