package vkit

import (
	"context"
	"runtime"
	"strings"
	"sync"
	"sync/atomic"
	"time"
)

// Step is one call of a generated concurrent program.
type Step struct {
	Op    string `json:"op"`
	V     int    `json:"v,omitempty"`
	Ctx   int    `json:"ctx"`             // context used by a blocking op / cancelled by a "cancel" step; -1: background
	Yield int    `json:"yield,omitempty"` // yield pattern applied before the call
}

// Program is a set of threads run on real goroutines.
type Program struct {
	Procs   int      `json:"gomaxprocs"`
	NCtx    int      `json:"contexts"`
	Threads [][]Step `json:"threads"`
}

// Result is what a call returned, as recorded in the history.
type Result struct {
	V         int    `json:"v,omitempty"`
	OK        bool   `json:"ok,omitempty"`
	Err       string `json:"err,omitempty"`
	Cancelled bool   `json:"cancelled,omitempty"` // the step's context had been cancelled before the call returned
}

// Runner executes a Program: exec performs one step and returns its
// Result (without the Cancelled flag).  Blocking steps (blocking(step))
// receive their generated context; once every unfinished thread sits in a
// blocking step and nothing has completed for a while, the runner cancels
// every context so that the program ends ("leftovers are released by
// cancelling their contexts").  Cancelling early is always sound: a
// context error is a legal result of a cancelled blocking call.
type Runner struct {
	Blocking func(Step) bool
	Exec     func(client int, s Step, ctx context.Context) Result
	Idle     time.Duration // how long "all blocked, no progress" must last before the release (default 3ms)
	// OnHang is called (on the caller's goroutine) when the program has
	// made no progress for the quiescence limit although every context
	// has been cancelled: non-blocking calls never block and blocking
	// calls return once their context is done, so the program is stuck
	// inside the library (a deadlock or a livelock).  stacks holds the
	// goroutines with a library frame.  Without OnHang Run keeps waiting.
	OnHang func(stacks string)
}

// Run executes the program once and returns the history.  released reports
// whether the runner had to cancel leftovers.
func (r *Runner) Run(p Program) (h *Hist, released bool) {
	if p.Procs > 0 {
		old := runtime.GOMAXPROCS(p.Procs)
		defer runtime.GOMAXPROCS(old)
	}
	h = &Hist{}
	ctxs := make([]context.Context, p.NCtx)
	cancels := make([]context.CancelFunc, p.NCtx)
	stamps := make([]atomic.Int64, p.NCtx)
	for i := range ctxs {
		ctxs[i], cancels[i] = context.WithCancel(context.Background())
	}
	defer func() {
		for _, c := range cancels {
			c()
		}
	}()
	cancel := func(i int) {
		if i >= 0 && i < len(cancels) {
			stamps[i].CompareAndSwap(0, h.Now())
			cancels[i]()
		}
	}
	n := len(p.Threads)
	inBlocking := make([]atomic.Bool, n)
	finished := make([]atomic.Bool, n)
	var progress atomic.Int64
	var wg sync.WaitGroup
	start := make(chan struct{})
	for g := range p.Threads {
		wg.Add(1)
		go func(g int) {
			defer wg.Done()
			defer finished[g].Store(true)
			<-start
			for _, s := range p.Threads[g] {
				Yield(s.Yield)
				if s.Op == "cancel" {
					cancel(s.Ctx)
					progress.Add(1)
					continue
				}
				ctx := context.Background()
				if s.Ctx >= 0 && s.Ctx < len(ctxs) {
					ctx = ctxs[s.Ctx]
				}
				blocking := r.Blocking(s)
				h.Call(g, s, func() any {
					if blocking {
						inBlocking[g].Store(true)
					}
					res := r.Exec(g, s, ctx)
					if blocking {
						inBlocking[g].Store(false)
					}
					if s.Ctx >= 0 && s.Ctx < len(ctxs) {
						res.Cancelled = stamps[s.Ctx].Load() != 0
					}
					return res
				})
				progress.Add(1)
			}
		}(g)
	}
	done := make(chan struct{})
	go func() { wg.Wait(); close(done) }()
	close(start)
	idle := r.Idle
	if idle == 0 {
		idle = 3 * time.Millisecond
	}
	last, since := int64(-1), time.Now()
	hangLast, hangSince, forced := int64(-1), time.Now(), false
	for {
		select {
		case <-done:
			return h, released
		default:
		}
		if cur := progress.Load(); cur != hangLast {
			hangLast, hangSince = cur, time.Now()
		} else if r.OnHang != nil && time.Since(hangSince) > Limit() {
			if !forced {
				// no call has returned for the whole limit: cancel
				// every context (always sound) and give the program the
				// same time again
				forced, released, hangSince = true, true, time.Now()
				for i := range cancels {
					cancel(i)
				}
			} else {
				var b strings.Builder
				for _, g := range Goroutines() {
					if strings.Contains(g, "github.com/tychoish/fun") {
						b.WriteString(g)
						b.WriteString("\n\n")
					}
				}
				st := b.String()
				if len(st) > 8000 {
					st = st[:8000]
				}
				r.OnHang(st)
				return h, released
			}
		}
		allBlocked := true
		for g := 0; g < n; g++ {
			if !finished[g].Load() && !inBlocking[g].Load() {
				allBlocked = false
				break
			}
		}
		if cur := progress.Load(); cur != last || !allBlocked {
			last, since = cur, time.Now()
		} else if time.Since(since) > idle {
			released = true
			for i := range cancels {
				cancel(i)
			}
			since = time.Now()
		}
		runtime.Gosched()
		time.Sleep(50 * time.Microsecond)
	}
}

// ExpiringContext is a context that ends with context.DeadlineExceeded when
// Expire is called (or with its parent's error when the parent ends): what a
// context.WithTimeout looks like to its users at the moment the time is up,
// without the harness having to guess how long a scenario takes.
type ExpiringContext struct {
	context.Context
	done chan struct{}
	once sync.Once
	err  atomic.Value
}

func NewExpiringContext(parent context.Context) *ExpiringContext {
	c := &ExpiringContext{Context: parent, done: make(chan struct{})}
	go func() {
		select {
		case <-parent.Done():
			c.finish(parent.Err())
		case <-c.done:
		}
	}()
	return c
}

func (c *ExpiringContext) finish(err error) {
	c.once.Do(func() { c.err.Store(err); close(c.done) })
}

// Expire ends the context with context.DeadlineExceeded.
func (c *ExpiringContext) Expire()               { c.finish(context.DeadlineExceeded) }
func (c *ExpiringContext) Done() <-chan struct{} { return c.done }
func (c *ExpiringContext) Err() error {
	if e, _ := c.err.Load().(error); e != nil {
		return e
	}
	return nil
}
func (c *ExpiringContext) Deadline() (time.Time, bool) { return time.Now().Add(time.Hour), true }

// FlipContext is a context that ends by itself at its k-th observation (a
// call of Err or Done): the deterministic form of "the context is cancelled
// just after the callee looked at it".  Until then it is a live context
// without deadline; afterwards Err is context.Canceled and Done is closed.
type FlipContext struct {
	mu   sync.Mutex
	left int
	done chan struct{}
	err  error
}

func NewFlipContext(k int) *FlipContext { return &FlipContext{left: k, done: make(chan struct{})} }

func (c *FlipContext) observe() {
	c.mu.Lock()
	defer c.mu.Unlock()
	if c.err != nil {
		return
	}
	if c.left <= 0 {
		c.err = context.Canceled
		close(c.done)
		return
	}
	c.left--
}

// Cancel ends the context now.
func (c *FlipContext) Cancel() {
	c.mu.Lock()
	defer c.mu.Unlock()
	if c.err == nil {
		c.err = context.Canceled
		close(c.done)
	}
}

func (c *FlipContext) Done() <-chan struct{} { c.observe(); return c.done }
func (c *FlipContext) Err() error {
	c.observe()
	c.mu.Lock()
	defer c.mu.Unlock()
	return c.err
}
func (c *FlipContext) Deadline() (time.Time, bool) { return time.Time{}, false }
func (c *FlipContext) Value(any) any               { return nil }
