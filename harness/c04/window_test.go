package c04

import (
	"context"
	"fmt"
	"testing"

	"pgregory.net/rapid"

	"verif/harness/vkit"
)

// The context of the first advance ends at a chosen point *inside* that
// first advance (vkit.FlipContext: it is cancelled at its k-th observation),
// i.e. somewhere between the entry check of ReadOne and the lazy start of
// the construct's goroutines.  That is one of the documented ways of being
// done, whatever the point: afterwards a read of the same iterator - or of
// a sibling output of a Split - made with a live context of its own returns
// (with a value, io.EOF or an error: it does not block on a pipe nobody
// feeds or closes), Close returns, and no goroutine remains.

const tWindow = "TestFirstAdvanceCancelledInWindow"

type windowCase struct {
	Construct string `json:"construct"`
	N         int    `json:"n"`
	Width     int    `json:"width"`
	K         int    `json:"k"` // the first advance's context ends at its k-th observation
	Procs     int    `json:"gomaxprocs"`
}

var windowConstructs = []string{"Split", "Split", "Chain", "MergeSlices", "MergeSliceIterators", "MergeIterators", "Buffer", "ParallelBuffer", "Map", "GenerateParallel", "dt.Map.Keys", "adt.Map.Keys"}

func runWindowCase(c *windowCase) (string, string) {
	limit := vkit.Limit()
	if left := vkit.NoFunGoroutines(limit); len(left) > 0 {
		return "harness", "library goroutines from an earlier case are still alive:\n" + stacks(left)
	}
	cc := &Case{Construct: c.Construct, Source: "slice", N: c.N, Width: c.Width}
	live, cancelLive := context.WithCancel(context.Background())
	defer cancelLive()
	p := build(cc, live)
	first := vkit.NewFlipContext(c.K)
	if !within(limit, func() { _, _ = p.outs[0].ReadOne(first) }) {
		first.Cancel()
		return "first-blocks", fmt.Sprintf("%s: the first ReadOne has not returned %v after its context ended (at observation %d)", c.Construct, limit, c.K)
	}
	first.Cancel()
	// a second reader, on the last output, with a context of its own
	out := p.outs[len(p.outs)-1]
	for i := 0; i <= c.N+2; i++ {
		var err error
		if !within(limit, func() { _, err = out.ReadOne(live) }) {
			return "second-blocks", fmt.Sprintf("%s (width %d, %d items): after the context of the first advance ended at its observation %d, ReadOne with a live context blocks on output %d (read %d)", c.Construct, c.Width, c.N, c.K, len(p.outs)-1, i)
		}
		if err != nil {
			break
		}
	}
	for i, it := range p.outs {
		it := it
		if !within(limit, func() { _ = it.Close() }) {
			return "close-blocks", fmt.Sprintf("%s: Close() of output %d has not returned after %v", c.Construct, i, limit)
		}
	}
	if left := vkit.NoFunGoroutines(limit); len(left) > 0 {
		return "leak", fmt.Sprintf("%s: %d library goroutines are still alive after the first advance's context ended (observation %d) and every output was closed:\n%s", c.Construct, len(left), c.K, stacks(left))
	}
	return "", ""
}

func TestFirstAdvanceCancelledInWindow(t *testing.T) {
	var rc windowCase
	if ok, err := vkit.ReplayCase(tWindow, &rc); err != nil {
		t.Fatal(err)
	} else if ok {
		for i := 0; i < 10; i++ {
			if k, why := runWindowCase(&rc); why != "" {
				vkit.Fail(t, tWindow, "C04:first-advance-window/"+rc.Construct+"/"+k, rc, "%s (repetition %d)", why, i)
			}
		}
		return
	}
	rapid.Check(t, func(t *rapid.T) {
		if vkit.AlreadyFailed(tWindow) {
			return
		}
		c := &windowCase{
			Construct: rapid.SampledFrom(windowConstructs).Draw(t, "construct"),
			N:         rapid.IntRange(0, 12).Draw(t, "n"),
			Width:     rapid.IntRange(2, 4).Draw(t, "width"),
			K:         rapid.IntRange(0, 12).Draw(t, "k"),
			Procs:     rapid.SampledFrom([]int{1, 4, 16}).Draw(t, "gomaxprocs"),
		}
		if k, why := runWindowCase(c); why != "" {
			vkit.Fail(t, tWindow, "C04:first-advance-window/"+c.Construct+"/"+k, *c, "%s", why)
		}
		vkit.Case(tWindow, vkit.Hash(*c), c.K >= 1 && c.N >= 1, []string{"construct:" + c.Construct, fmt.Sprintf("k:%d", c.K)}, func() any { return *c })
	})
}
