// Package c04 decides property C04: pipelines terminate - no stuck
// consumer, no leaked goroutine.
package c04

import (
	"context"
	"errors"
	"fmt"
	"io"
	"runtime"
	"strings"
	"sync"
	"sync/atomic"
	"testing"
	"time"

	"github.com/tychoish/fun"
	"github.com/tychoish/fun/adt"
	"github.com/tychoish/fun/dt"
	"github.com/tychoish/fun/itertool"
	"pgregory.net/rapid"

	"verif/harness/vkit"
)

func TestMain(m *testing.M) { vkit.Main(m) }

const tTerm = "TestTermination"

type Case struct {
	Construct string `json:"construct"`
	Source    string `json:"source"` // slice | endless | stalled | failing (GenerateParallel / Map / ProcessParallel: n good items, then one call fails while the others block on their context) | flaky (the same three in continue-on-error mode: n good calls, then every call fails at once and never looks at its context)
	N         int    `json:"n"`
	Cut       int    `json:"cut"`
	Stop      string `json:"stop"` // exhaust | close | cancel | close-cancel | cancel-close | close-twice | close-while-blocked | abandon
	Width     int    `json:"width"`
	Yield     int    `json:"yield"`
	Procs     int    `json:"gomaxprocs"`
	Expire    bool   `json:"deadline_expiry,omitempty"` // "cancel" means: the context's deadline passes (context.DeadlineExceeded)
}

// finite-only constructs take slices / maps as input
var constructs = []string{"Split", "Buffer", "ParallelBuffer", "ParallelBuffer", "Map", "ProcessParallel", "GenerateParallel", "MergeIterators", "Chain", "MergeSlices", "MergeSliceIterators", "BufferedChannel", "dt.Map.Keys", "dt.Map.Values", "dt.Map.Iterator", "adt.Map.Keys", "adt.Map.Iterator"}

func finiteOnly(c string) bool {
	switch c {
	case "MergeSlices", "MergeSliceIterators", "dt.Map.Keys", "dt.Map.Values", "dt.Map.Iterator", "adt.Map.Keys", "adt.Map.Iterator":
		return true
	}
	return false
}

// source builds the input iterator.  A stalled source yields n items and
// then blocks until the context it is called with ends.
func source(kind string, n int) *fun.Iterator[int] {
	switch kind {
	case "slice":
		in := make([]int, n)
		for i := range in {
			in[i] = i
		}
		return fun.SliceIterator(in)
	case "endless":
		var i atomic.Int64
		return fun.Generator(func(ctx context.Context) (int, error) { return int(i.Add(1)), ctx.Err() })
	default:
		var i atomic.Int64
		return fun.Generator(func(ctx context.Context) (int, error) {
			if v := int(i.Add(1)); v <= n {
				return v, nil
			}
			<-ctx.Done()
			return 0, ctx.Err()
		})
	}
}

var errSourceFailed = errors.New("c04: the user function failed")

// failingStep is the user function of a "failing" case: the first n calls
// succeed, call n+1 fails, every later call honours its context by
// blocking until it ends (a sibling parked in user code while the group is
// stopped by the failure).
func failingStep(ctx context.Context, c *Case, v int) error {
	switch {
	case v <= c.N:
		vkit.Yield(c.Yield)
		return nil
	case v == c.N+1:
		vkit.Yield(c.Yield)
		return errSourceFailed
	}
	<-ctx.Done()
	return ctx.Err()
}

var errFlaky = errors.New("c04: the source is down")

// flakyStep is the user function of a "flaky" case (continue-on-error
// mode): the first n calls succeed, every later call fails quickly and
// never consults its context, like a poll of a source that is down.
func flakyStep(c *Case, v int) error {
	if v <= c.N {
		vkit.Yield(c.Yield)
		return nil
	}
	time.Sleep(50 * time.Microsecond)
	return errFlaky
}

type pipeline struct {
	outs   []*fun.Iterator[int]
	ch     <-chan int    // BufferedChannel
	worker fun.Worker    // ProcessParallel
	seen   *atomic.Int64 // items handed to the ProcessParallel function
}

// inputs builds the operands of MergeIterators / Chain.
func inputs(c *Case) []*fun.Iterator[int] {
	srcs := make([]*fun.Iterator[int], c.Width)
	for i := range srcs {
		srcs[i] = source(c.Source, c.N/c.Width+1)
	}
	return srcs
}

func build(c *Case, ctx context.Context) *pipeline {
	w := c.Width
	p := &pipeline{}
	src := func() *fun.Iterator[int] { return source(c.Source, c.N) }
	one := func(it *fun.Iterator[int]) { p.outs = []*fun.Iterator[int]{it} }
	slices := func() [][]int {
		out := make([][]int, w)
		for i := 0; i < c.N; i++ {
			out[i%w] = append(out[i%w], i)
		}
		return out
	}
	mp := map[int]int{}
	for i := 0; i < c.N; i++ {
		mp[i] = i
	}
	switch c.Construct {
	case "Split":
		p.outs = src().Split(w)
	case "Buffer":
		one(src().Buffer(w))
	case "ParallelBuffer":
		one(src().ParallelBuffer(w))
	case "Map":
		if c.Source == "failing" {
			one(fun.Map(source("endless", 0), func(ctx context.Context, v int) (int, error) { return v, failingStep(ctx, c, v) }, fun.WorkerGroupConfNumWorkers(w)))
			break
		}
		if c.Source == "flaky" {
			one(fun.Map(source("endless", 0), func(_ context.Context, v int) (int, error) { return v, flakyStep(c, v) }, fun.WorkerGroupConfNumWorkers(w), fun.WorkerGroupConfContinueOnError()))
			break
		}
		one(fun.Map(src(), func(_ context.Context, v int) (int, error) { vkit.Yield(c.Yield); return v, nil }, fun.WorkerGroupConfNumWorkers(w)))
	case "ProcessParallel":
		p.seen = &atomic.Int64{}
		if c.Source == "failing" {
			p.worker = source("endless", 0).ProcessParallel(func(ctx context.Context, v int) error { p.seen.Add(1); return failingStep(ctx, c, v) }, fun.WorkerGroupConfNumWorkers(w))
			break
		}
		if c.Source == "flaky" {
			p.worker = source("endless", 0).ProcessParallel(func(_ context.Context, v int) error { p.seen.Add(1); return flakyStep(c, v) }, fun.WorkerGroupConfNumWorkers(w), fun.WorkerGroupConfContinueOnError())
			break
		}
		p.worker = src().ProcessParallel(func(context.Context, int) error { p.seen.Add(1); vkit.Yield(c.Yield); return nil }, fun.WorkerGroupConfNumWorkers(w))
	case "GenerateParallel":
		var i atomic.Int64
		gen := fun.Producer[int](func(ctx context.Context) (int, error) {
			v := int(i.Add(1))
			switch {
			case c.Source == "slice" && v > c.N:
				return 0, io.EOF
			case c.Source == "stalled" && v > c.N:
				<-ctx.Done()
				return 0, ctx.Err()
			case c.Source == "failing":
				return v, failingStep(ctx, c, v)
			case c.Source == "flaky":
				return v, flakyStep(c, v)
			}
			return v, ctx.Err()
		})
		if c.Source == "flaky" {
			one(gen.GenerateParallel(fun.WorkerGroupConfNumWorkers(w), fun.WorkerGroupConfContinueOnError()))
			break
		}
		one(gen.GenerateParallel(fun.WorkerGroupConfNumWorkers(w)))
	case "MergeIterators":
		one(fun.MergeIterators(inputs(c)...))
	case "Chain":
		one(itertool.Chain(inputs(c)...))
	case "MergeSlices":
		one(itertool.MergeSlices(slices()...))
	case "MergeSliceIterators":
		one(itertool.MergeSliceIterators(fun.SliceIterator(slices())))
	case "BufferedChannel":
		p.ch = src().BufferedChannel(ctx, w-1)
	case "dt.Map.Keys":
		one(dt.NewMap(mp).Keys())
	case "dt.Map.Values":
		one(dt.NewMap(mp).Values())
	case "dt.Map.Iterator":
		one(fun.ConvertIterator(dt.NewMap(mp).Iterator(), fun.Converter(func(p dt.Pair[int, int]) int { return p.Key })))
	case "adt.Map.Keys":
		m := &adt.Map[int, int]{}
		for k, v := range mp {
			m.Store(k, v)
		}
		one(m.Keys())
	case "adt.Map.Iterator":
		m := &adt.Map[int, int]{}
		for k, v := range mp {
			m.Store(k, v)
		}
		one(fun.ConvertIterator(m.Iterator(), fun.Converter(func(p dt.Pair[int, int]) int { return p.Key })))
	}
	return p
}

func within(limit time.Duration, fn func()) bool {
	done := make(chan struct{})
	go func() { fn(); close(done) }()
	select {
	case <-done:
		return true
	case <-time.After(limit):
		return false
	}
}

func stacks(gs []string) string {
	var b strings.Builder
	for i, g := range gs {
		if i == 3 {
			fmt.Fprintf(&b, "… and %d more", len(gs)-3)
			break
		}
		lines := strings.Split(g, "\n")
		if len(lines) > 9 {
			lines = lines[:9]
		}
		b.WriteString(strings.Join(lines, "\n"))
		b.WriteString("\n--\n")
	}
	return b.String()
}

func runCase(c *Case) (string, string) {
	if c.Procs > 0 {
		old := runtime.GOMAXPROCS(c.Procs)
		defer runtime.GOMAXPROCS(old)
	}
	limit := vkit.Limit()
	if left := vkit.NoFunGoroutines(limit); len(left) > 0 {
		return "harness", "library goroutines from an earlier case are still alive:\n" + stacks(left)
	}
	ctx, cancel := context.WithCancel(context.Background())
	defer cancel()
	if c.Expire {
		// the consumer's context ends because its deadline passes rather
		// than through cancel()
		ectx := vkit.NewExpiringContext(ctx)
		ctx, cancel = ectx, ectx.Expire
	}
	p := build(c, ctx)

	// ---- a worker rather than an iterator
	if p.worker != nil {
		done := make(chan error, 1)
		go func() { done <- p.worker(ctx) }()
		if c.Stop != "exhaust" {
			vkit.Eventually(limit, func() bool { return p.seen.Load() >= int64(c.Cut) })
			cancel()
		}
		select {
		case <-done:
		case <-time.After(limit):
			if c.Source == "failing" {
				return "stuck-after-failure", fmt.Sprintf("ProcessParallel (abort mode, %d workers) has not returned %v after one call failed; the other calls block until their context ends (items seen: %d)", c.Width, limit, p.seen.Load())
			}
			return "stuck", fmt.Sprintf("ProcessParallel has not returned %v after %s (items seen: %d)", limit, c.Stop, p.seen.Load())
		}
		if left := vkit.NoFunGoroutines(limit); len(left) > 0 {
			return "leak", fmt.Sprintf("%d library goroutines are still alive after ProcessParallel returned (%s):\n%s", len(left), c.Stop, stacks(left))
		}
		return "", ""
	}

	// ---- a channel
	if p.ch != nil {
		got := 0
		for got < c.Cut || c.Stop == "exhaust" {
			stuck := false
			var ok bool
			if !within(limit, func() { _, ok = <-p.ch }) {
				stuck = true
			}
			if stuck {
				return "stuck", fmt.Sprintf("BufferedChannel: receive %d blocks for %v", got, limit)
			}
			if !ok {
				break
			}
			got++
		}
		cancel()
		if left := vkit.NoFunGoroutines(limit); len(left) > 0 {
			return "leak", fmt.Sprintf("%d library goroutines are still alive after the context of BufferedChannel was cancelled:\n%s", len(left), stacks(left))
		}
		return "", ""
	}

	// ---- iterators: consume `cut` items through the first output
	first := p.outs[0]
	got := 0
	var lastErr error
	for got < c.Cut || c.Stop == "exhaust" {
		var err error
		if !within(limit, func() { _, err = first.ReadOne(ctx) }) {
			if c.Source == "failing" {
				return "stuck-after-failure", fmt.Sprintf("%s (abort mode, %d workers): ReadOne %d blocks for %v after one call of the user function failed; the other calls block until their context ends", c.Construct, c.Width, got, limit)
			}
			return "stuck", fmt.Sprintf("%s: ReadOne %d blocks for %v although the source still has items", c.Construct, got, limit)
		}
		if err != nil {
			lastErr = err
			break
		}
		got++
		vkit.Yield(c.Yield)
	}
	if c.Stop == "exhaust" && c.Source == "failing" {
		// the failure ended the input; the iterator is then closed like
		// any exhausted one
		if k, why := func() (string, string) {
			if !within(limit, func() { _ = first.Close() }) {
				return "close-blocks", fmt.Sprintf("%s: Close() after the failure has not returned after %v", c.Construct, limit)
			}
			return "", ""
		}(); why != "" {
			return k, why
		}
	} else if c.Stop == "exhaust" && !errors.Is(lastErr, io.EOF) {
		return "eof", fmt.Sprintf("%s: a finite input ended with %v after %d items, want io.EOF", c.Construct, lastErr, got)
	}
	closeAll := func(which []*fun.Iterator[int], tag string) (string, string) {
		for i, it := range which {
			it := it
			if !within(limit, func() { _ = it.Close() }) {
				return "close-blocks", fmt.Sprintf("%s: %s Close() of output %d has not returned after %v", c.Construct, tag, i, limit)
			}
		}
		return "", ""
	}
	var blocked chan error
	switch c.Stop {
	case "exhaust":
	case "close":
		if k, why := closeAll(p.outs, "the"); why != "" {
			return k, why
		}
	case "cancel":
		cancel()
	case "close-cancel":
		if k, why := closeAll(p.outs, "the"); why != "" {
			return k, why
		}
		cancel()
	case "cancel-close":
		cancel()
		if k, why := closeAll(p.outs, "the"); why != "" {
			return k, why
		}
	case "close-twice":
		if k, why := closeAll(p.outs, "the first"); why != "" {
			return k, why
		}
		if k, why := closeAll(p.outs, "the second"); why != "" {
			return k, why
		}
	case "abandon":
		// never-advanced outputs are abandoned; the one in use is closed
		if k, why := closeAll(p.outs[:1], "the"); why != "" {
			return k, why
		}
	case "close-while-blocked":
		// a consumer is blocked in ReadOne (the source is stalled or the
		// remaining items are slow in coming); Close must release it
		blocked = make(chan error, 1)
		go func() {
			for {
				if _, err := first.ReadOne(ctx); err != nil {
					blocked <- err
					return
				}
			}
		}()
		vkit.Yield(c.Yield)
		if k, why := closeAll(p.outs, "the"); why != "" {
			return k, why
		}
	}
	if blocked != nil {
		select {
		case <-blocked:
		case <-time.After(limit):
			return "consumer-stuck", fmt.Sprintf("%s: a consumer blocked in ReadOne has not returned %v after Close", c.Construct, limit)
		}
	}
	// after the stop nothing more is yielded
	if c.Stop != "exhaust" && c.Stop != "abandon" {
		var err error
		if !within(limit, func() { _, err = first.ReadOne(ctx) }) {
			return "consumer-stuck", fmt.Sprintf("%s: ReadOne after %s blocks", c.Construct, c.Stop)
		}
		if err == nil && c.Stop != "cancel" {
			return "yields-after-close", fmt.Sprintf("%s: ReadOne after %s still yields a value", c.Construct, c.Stop)
		}
	}
	if left := vkit.NoFunGoroutines(limit); len(left) > 0 {
		return "leak", fmt.Sprintf("%s over a %s source, stop=%s after %d of %d items: %d library goroutines are still alive:\n%s", c.Construct, c.Source, c.Stop, got, c.N, len(left), stacks(left))
	}
	return "", ""
}

func genCase(t *rapid.T) *Case {
	c := &Case{
		Construct: rapid.SampledFrom(constructs).Draw(t, "construct"),
		Source:    rapid.SampledFrom([]string{"slice", "slice", "endless", "stalled"}).Draw(t, "source"),
		N:         rapid.IntRange(0, 40).Draw(t, "n"),
		Width:     rapid.IntRange(1, 5).Draw(t, "width"),
		Yield:     rapid.IntRange(0, 3).Draw(t, "yield"),
		Procs:     rapid.SampledFrom([]int{1, 2, 4, 16}).Draw(t, "gomaxprocs"),
	}
	// a quarter of the cases are wide (many workers / senders) and long
	if rapid.IntRange(0, 3).Draw(t, "wide") == 0 {
		c.Width = rapid.SampledFrom([]int{8, 16, 32, 64}).Draw(t, "wideWidth")
		c.N = rapid.IntRange(2*c.Width, 4096).Draw(t, "longN")
	}
	if finiteOnly(c.Construct) {
		c.Source = "slice"
	}
	stops := []string{"exhaust", "close", "cancel", "close-cancel", "cancel-close", "close-twice", "close-while-blocked"}
	if c.Construct == "Split" && c.Width > 1 {
		stops = append(stops, "abandon")
	}
	if c.Construct == "ProcessParallel" || c.Construct == "BufferedChannel" {
		stops = []string{"exhaust", "cancel"}
	}
	c.Stop = rapid.SampledFrom(stops).Draw(t, "stop")
	c.Expire = strings.Contains(c.Stop, "cancel") && rapid.IntRange(0, 2).Draw(t, "expire") == 0
	switch c.Construct {
	case "GenerateParallel", "Map", "ProcessParallel":
		if c.Stop != "exhaust" && rapid.IntRange(0, 3).Draw(t, "flaky") == 0 {
			c.Source = "flaky"
		}
	}
	if c.Stop == "exhaust" {
		c.Source = "slice"
		switch c.Construct {
		case "GenerateParallel", "Map", "ProcessParallel":
			if rapid.IntRange(0, 2).Draw(t, "failing") == 0 {
				c.Source = "failing"
			}
		}
	}
	switch rapid.IntRange(0, 3).Draw(t, "cutKind") {
	case 0:
		c.Cut = 0
	case 1:
		c.Cut = c.N
	default:
		c.Cut = rapid.IntRange(0, c.N).Draw(t, "cut")
	}
	if c.Source == "stalled" && c.Construct == "Chain" && c.Cut > c.N/c.Width+1 {
		// Chain reads its first operand to the end, and a stalled
		// operand never ends: only its n/width+1 items are available
		c.Cut = c.N/c.Width + 1
	}
	return c
}

func TestTermination(t *testing.T) {
	var rc Case
	if ok, err := vkit.ReplayCase(tTerm, &rc); err != nil {
		t.Fatal(err)
	} else if ok {
		for i := 0; i < 20; i++ {
			if k, why := runCase(&rc); why != "" {
				vkit.Fail(t, tTerm, "C04:"+rc.Construct+"/"+k, rc, "%s (repetition %d)", why, i)
			}
		}
		return
	}
	reps := vkit.Pick(2, 4)
	var mu sync.Mutex
	rapid.Check(t, func(t *rapid.T) {
		if vkit.AlreadyFailed(tTerm) {
			return
		}
		mu.Lock()
		defer mu.Unlock()
		c := genCase(t)
		n := reps
		if c.Construct == "ParallelBuffer" && c.Stop != "exhaust" {
			// several senders share one buffered pipe: the window in which
			// an early stop meets two in-flight sends is narrow
			n = reps * 12
		}
		for i := 0; i < n; i++ {
			if k, why := runCase(c); why != "" {
				vkit.Fail(t, tTerm, "C04:"+c.Construct+"/"+k, *c, "%s (repetition %d)", why, i)
			}
		}
		vkit.CaseN(tTerm, vkit.Hash(*c), n, (c.Cut > 0 && c.Cut < c.N) || c.Stop == "close-while-blocked" || c.Source == "failing" || c.Source == "flaky", []string{"construct:" + c.Construct, "source:" + c.Source, "stop:" + c.Stop}, func() any { return *c })
	})
}

// ---------------------------------------------------------------------
// Close racing the first read: "a consumer blocked in Next/ReadOne returns
// promptly after Close" also covers the consumer whose first ReadOne starts
// at the very moment Close is called - it must return (a value, io.EOF or a
// context error), not panic.

const tCloseRace = "TestCloseRacesFirstRead"

type raceCase struct {
	Construct string `json:"construct"`
	N         int    `json:"n"`
	Width     int    `json:"width"`
	Readers   int    `json:"readers"`
	Spin      []int  `json:"spin"` // busy iterations before the Close / each reader's first ReadOne
	Procs     int    `json:"gomaxprocs"`
}

func runCloseRace(c *raceCase, reps int) (string, string) {
	if c.Procs > 0 {
		old := runtime.GOMAXPROCS(c.Procs)
		defer runtime.GOMAXPROCS(old)
	}
	limit := vkit.Limit()
	var cancels []context.CancelFunc
	defer func() {
		for _, cf := range cancels {
			cf()
		}
	}()
	for rep := 0; rep < reps; rep++ {
		// the readers' context is never cancelled: Close alone has to
		// end everything ("exits once ... Close is called on the output")
		ctx, cancel := context.WithCancel(context.Background())
		cancels = append(cancels, cancel)
		p := build(&Case{Construct: c.Construct, Source: "slice", N: c.N, Width: c.Width}, ctx)
		it := p.outs[0]
		var wg sync.WaitGroup
		start := make(chan struct{})
		var panicked atomic.Value
		spin := func(n int) {
			for i := 0; i < n*20; i++ {
				runtime.KeepAlive(i)
			}
		}
		for r := 0; r < c.Readers; r++ {
			wg.Add(1)
			go func(r int) {
				defer wg.Done()
				defer func() {
					if e := recover(); e != nil {
						panicked.Store(fmt.Sprintf("%v", e))
					}
				}()
				<-start
				spin(c.Spin[(r+1)%len(c.Spin)])
				_, _ = it.ReadOne(ctx)
			}(r)
		}
		wg.Add(1)
		go func() {
			defer wg.Done()
			<-start
			spin(c.Spin[0])
			for _, o := range p.outs {
				_ = o.Close()
			}
		}()
		close(start)
		if !within(limit, wg.Wait) {
			return "consumer-stuck", fmt.Sprintf("%s: a first ReadOne racing Close has not returned after %v (repetition %d)", c.Construct, limit, rep)
		}
		if e, _ := panicked.Load().(string); e != "" {
			return "close-race-panic", fmt.Sprintf("%s: the first ReadOne, racing Close, panicked: %s (repetition %d)", c.Construct, e, rep)
		}
	}
	if left := vkit.NoFunGoroutines(limit); len(left) > 0 {
		return "leak", fmt.Sprintf("%s: %d library goroutines are still alive after Close raced the first read:\n%s", c.Construct, len(left), stacks(left))
	}
	return "", ""
}

func TestCloseRacesFirstRead(t *testing.T) {
	var rc raceCase
	if ok, err := vkit.ReplayCase(tCloseRace, &rc); err != nil {
		t.Fatal(err)
	} else if ok {
		if k, why := runCloseRace(&rc, vkit.Pick(20000, 100000)); why != "" {
			vkit.Fail(t, tCloseRace, "C04:"+k, rc, "%s", why)
		}
		return
	}
	reps := vkit.Pick(150, 400)
	rapid.Check(t, func(t *rapid.T) {
		if vkit.AlreadyFailed(tCloseRace) {
			return
		}
		c := &raceCase{
			Construct: rapid.SampledFrom([]string{"Split", "Buffer", "ParallelBuffer", "Map", "GenerateParallel", "MergeIterators", "Chain", "MergeSlices", "dt.Map.Keys", "adt.Map.Keys"}).Draw(t, "construct"),
			N:         rapid.IntRange(0, 6).Draw(t, "n"),
			Width:     rapid.IntRange(1, 3).Draw(t, "width"),
			Readers:   rapid.IntRange(1, 3).Draw(t, "readers"),
			Spin:      rapid.SliceOfN(rapid.IntRange(0, 40), 2, 4).Draw(t, "spin"),
			Procs:     rapid.SampledFrom([]int{2, 4, 16}).Draw(t, "gomaxprocs"),
		}
		if k, why := runCloseRace(c, reps); why != "" {
			vkit.Fail(t, tCloseRace, "C04:"+k, *c, "%s", why)
		}
		vkit.CaseN(tCloseRace, vkit.Hash(*c), reps, true, []string{"construct:" + c.Construct}, func() any { return *c })
	})
}

// ---------------------------------------------------------------------
// Many senders into one buffered pipe, consumer stops early: the stop has
// to release every sender whichever send it races with ("every
// interleaving of the stop with in-flight sends").  The window in which two
// senders meet the last free slot is narrow, so these cases are cheap and
// repeated very often; the goroutine count is polled first and the stack
// dump only consulted when it does not come down.

const tSenders = "TestParallelSendersStop"

type sendersCase struct {
	Construct string `json:"construct"` // ParallelBuffer | ProcessParallel+ChanSend
	Width     int    `json:"width"`
	N         int    `json:"n"`
	Cut       int    `json:"cut"`
	Stop      string `json:"stop"`   // close | cancel | close-cancel
	Settle    int    `json:"settle"` // yield pattern between the last read and the stop
	Procs     int    `json:"gomaxprocs"`
}

func runSenders(c *sendersCase, reps int) (string, string) {
	if c.Procs > 0 {
		old := runtime.GOMAXPROCS(c.Procs)
		defer runtime.GOMAXPROCS(old)
	}
	limit := vkit.Limit()
	in := make([]int, c.N)
	for i := range in {
		in[i] = i
	}
	if left := vkit.NoFunGoroutines(limit); len(left) > 0 {
		return "harness", "library goroutines from an earlier case are still alive:\n" + stacks(left)
	}
	for rep := 0; rep < reps; rep++ {
		base := runtime.NumGoroutine()
		ctx, cancel := context.WithCancel(context.Background())
		var it *fun.Iterator[int]
		var done chan error
		switch c.Construct {
		case "ParallelBuffer":
			it = fun.SliceIterator(in).ParallelBuffer(c.Width)
		default:
			buf := fun.Blocking(make(chan int, c.Width))
			w := fun.SliceIterator(in).ProcessParallel(buf.Processor(), fun.WorkerGroupConfNumWorkers(c.Width))
			it = buf.Producer().Iterator()
			done = make(chan error, 1)
			go func() { done <- w(ctx) }()
		}
		for i := 0; i < c.Cut; i++ {
			var err error
			if !within(limit, func() { _, err = it.ReadOne(ctx) }) {
				cancel()
				return "stuck", fmt.Sprintf("%s: ReadOne %d blocks for %v although the source still has items", c.Construct, i, limit)
			}
			if err != nil {
				break
			}
		}
		vkit.Yield(c.Settle)
		switch c.Stop {
		case "close":
			_ = it.Close()
			if done != nil {
				cancel() // a worker group is stopped through its context
			}
		case "cancel":
			cancel()
		default:
			_ = it.Close()
			cancel()
		}
		if done != nil {
			select {
			case <-done:
			case <-time.After(limit):
				cancel()
				return "stuck", fmt.Sprintf("ProcessParallel sending to a buffered pipe (%d workers) has not returned %v after its context was cancelled (repetition %d)", c.Width, limit, rep)
			}
		}
		settled := vkit.Eventually(50*time.Millisecond, func() bool { return runtime.NumGoroutine() <= base })
		if !settled {
			if left := vkit.NoFunGoroutines(limit); len(left) > 0 {
				cancel()
				return "leak", fmt.Sprintf("%s width %d over %d items, stop=%s after %d items: %d library goroutines are still alive (repetition %d):\n%s", c.Construct, c.Width, c.N, c.Stop, c.Cut, len(left), rep, stacks(left))
			}
		}
		cancel()
	}
	return "", ""
}

func TestParallelSendersStop(t *testing.T) {
	var rc sendersCase
	if ok, err := vkit.ReplayCase(tSenders, &rc); err != nil {
		t.Fatal(err)
	} else if ok {
		if k, why := runSenders(&rc, vkit.Pick(3000, 20000)); why != "" {
			vkit.Fail(t, tSenders, "C04:"+rc.Construct+"/"+k, rc, "%s", why)
		}
		return
	}
	reps := vkit.Pick(60, 200)
	rapid.Check(t, func(t *rapid.T) {
		if vkit.AlreadyFailed(tSenders) {
			return
		}
		c := &sendersCase{
			Construct: rapid.SampledFrom([]string{"ParallelBuffer", "ParallelBuffer", "ProcessParallel+ChanSend"}).Draw(t, "construct"),
			Width:     rapid.SampledFrom([]int{2, 3, 4, 8, 16, 16, 32, 64}).Draw(t, "width"),
			Stop:      rapid.SampledFrom([]string{"close", "cancel", "close-cancel"}).Draw(t, "stop"),
			Settle:    rapid.SampledFrom([]int{0, 0, 1, 3, 4, 8}).Draw(t, "settle"),
			Procs:     rapid.SampledFrom([]int{2, 4, 16, 16}).Draw(t, "gomaxprocs"),
		}
		c.N = rapid.IntRange(2*c.Width, 4096).Draw(t, "n")
		c.Cut = rapid.IntRange(0, 3).Draw(t, "cut")
		if k, why := runSenders(c, reps); why != "" {
			vkit.Fail(t, tSenders, "C04:"+c.Construct+"/"+k, *c, "%s", why)
		}
		vkit.CaseN(tSenders, vkit.Hash(*c), reps, true, []string{"construct:" + c.Construct, fmt.Sprintf("width:%d", c.Width), "stop:" + c.Stop}, func() any { return *c })
	})
}

// ---------------------------------------------------------------------
// Very many tiny finite pipelines: "a finite input always leads to io.EOF
// (no deadlock)".  A wake-up lost once in ten thousand runs only shows when
// the workers finish almost instantly (empty or very short inputs, 1-3
// workers) and the pipeline is run tens of thousands of times.  One
// goroutine runs the batch; a watchdog looks at its progress counter.

const tTiny = "TestTinyPipelinesReachEOF"

type tinyCase struct {
	Construct string `json:"construct"`
	N         int    `json:"n"`
	Width     int    `json:"width"`
	Procs     int    `json:"gomaxprocs"`
}

func runTiny(c *tinyCase, reps int) (string, string) {
	if c.Procs > 0 {
		old := runtime.GOMAXPROCS(c.Procs)
		defer runtime.GOMAXPROCS(old)
	}
	limit := vkit.Limit()
	var progress atomic.Int64
	var bad atomic.Value
	done := make(chan struct{})
	ctx, cancel := context.WithCancel(context.Background())
	defer cancel()
	go func() {
		defer close(done)
		for rep := 0; rep < reps && ctx.Err() == nil; rep++ {
			p := build(&Case{Construct: c.Construct, Source: "slice", N: c.N, Width: c.Width}, ctx)
			var last error
			n := 0
			for {
				_, err := p.outs[0].ReadOne(ctx)
				if err != nil {
					last = err
					break
				}
				n++
			}
			if ctx.Err() != nil {
				return
			}
			if !errors.Is(last, io.EOF) {
				bad.Store(fmt.Sprintf("pipeline %d ended with %v after %d items, want io.EOF", rep, last, n))
				return
			}
			for _, o := range p.outs {
				_ = o.Close()
			}
			progress.Add(1)
		}
	}()
	last, since := int64(-1), time.Now()
	for {
		select {
		case <-done:
			if e, _ := bad.Load().(string); e != "" {
				return "eof", c.Construct + ": " + e
			}
			if left := vkit.NoFunGoroutines(limit); len(left) > 0 {
				return "leak", fmt.Sprintf("%s: %d library goroutines are still alive after %d exhausted pipelines:\n%s", c.Construct, len(left), reps, stacks(left))
			}
			return "", ""
		case <-time.After(5 * time.Millisecond):
			if cur := progress.Load(); cur != last {
				last, since = cur, time.Now()
			} else if time.Since(since) > limit {
				gs := stacks(vkit.FunGoroutines())
				cancel()
				<-done
				return "no-eof", fmt.Sprintf("%s width %d over %d items: pipeline %d has not reached io.EOF for %v (a finite input, the consumer keeps reading); library goroutines:\n%s", c.Construct, c.Width, c.N, last, limit, gs)
			}
		}
	}
}

func TestTinyPipelinesReachEOF(t *testing.T) {
	var rc tinyCase
	if ok, err := vkit.ReplayCase(tTiny, &rc); err != nil {
		t.Fatal(err)
	} else if ok {
		if k, why := runTiny(&rc, vkit.Pick(200000, 1000000)); why != "" {
			vkit.Fail(t, tTiny, "C04:"+rc.Construct+"/"+k, rc, "%s", why)
		}
		return
	}
	reps := vkit.Pick(4000, 20000)
	rapid.Check(t, func(t *rapid.T) {
		if vkit.AlreadyFailed(tTiny) {
			return
		}
		c := &tinyCase{
			Construct: rapid.SampledFrom([]string{"Map", "GenerateParallel", "MergeIterators", "ParallelBuffer", "Split", "Buffer", "Chain"}).Draw(t, "construct"),
			N:         rapid.IntRange(0, 2).Draw(t, "n"),
			Width:     rapid.IntRange(1, 3).Draw(t, "width"),
			Procs:     rapid.SampledFrom([]int{2, 4, 16}).Draw(t, "gomaxprocs"),
		}
		if k, why := runTiny(c, reps); why != "" {
			vkit.Fail(t, tTiny, "C04:"+c.Construct+"/"+k, *c, "%s", why)
		}
		vkit.CaseN(tTiny, vkit.Hash(*c), reps, true, []string{"construct:" + c.Construct}, func() any { return *c })
	})
}
